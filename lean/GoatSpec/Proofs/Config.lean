import GoatSpec.Config
/-! # Lemmas for the configuration round trip (C16) -/
namespace GoatSpec.Config
open GoatSpec.Extracted (TItem TSeg)

/-! ## splitting at a separator -/

theorem splitOnChar_ne_nil (sep : Char) (s : Str) : splitOnChar sep s ≠ [] := by
  induction s with
  | nil => simp [splitOnChar]
  | cons c cs ih =>
    unfold splitOnChar
    split
    · simp
    · split <;> simp

theorem splitOnChar_noSep (sep : Char) (s : Str) (h : sep ∉ s) : splitOnChar sep s = [s] := by
  induction s with
  | nil => simp [splitOnChar]
  | cons c cs ih =>
    have hc : c ≠ sep := fun e => h (by simp [e])
    have hcs : sep ∉ cs := fun m => h (by simp [m])
    unfold splitOnChar
    simp [hc, ih hcs]

theorem splitOnChar_append (sep : Char) (a b : Str) (h : sep ∉ a) :
    splitOnChar sep (a ++ sep :: b) = a :: splitOnChar sep b := by
  induction a with
  | nil => simp [splitOnChar]
  | cons c cs ih =>
    have hc : c ≠ sep := fun e => h (by simp [e])
    have hcs : sep ∉ cs := fun m => h (by simp [m])
    show splitOnChar sep (c :: (cs ++ sep :: b)) = _
    rw [splitOnChar, if_neg hc, ih hcs]

/-! ## trimming -/

theorem dropRight_append_last (p : Char → Bool) (s : Str) (x : Char) (hx : p x = false) :
    dropRight p (s ++ [x]) = s ++ [x] := by
  induction s with
  | nil => simp [dropRight, hx]
  | cons c cs ih =>
    show dropRight p (c :: (cs ++ [x])) = _
    unfold dropRight
    rw [ih]
    cases h : cs ++ [x] with
    | nil => simp at h
    | cons a r => simp [h.symm]

/-! ## numbers -/

theorem isDigit_digitChar (d : Nat) (h : d < 10) : isDigit (digitChar d) = true ∧ (digitChar d).toNat - 48 = d := by
  have : d = 0 ∨ d = 1 ∨ d = 2 ∨ d = 3 ∨ d = 4 ∨ d = 5 ∨ d = 6 ∨ d = 7 ∨ d = 8 ∨ d = 9 := by omega
  rcases this with h | h | h | h | h | h | h | h | h | h <;> subst h <;> decide

theorem parseNatAux_append (a b : Str) (n : Nat) :
    parseNatAux (a ++ b) n = (parseNatAux a n).bind (parseNatAux b) := by
  induction a generalizing n with
  | nil => simp [parseNatAux]
  | cons c cs ih =>
    show parseNatAux (c :: (cs ++ b)) n = _
    unfold parseNatAux
    split
    · exact ih _
    · simp

/-- `showNatAux` puts the digits of `n` in front of `acc` -/
theorem showNatAux_spec (f n : Nat) (acc : Str) (hf : n < f) :
    ∃ ds : Str, showNatAux f n acc = ds ++ acc ∧ ds ≠ [] ∧ (∀ c ∈ ds, isDigit c = true) ∧
      (∀ a, parseNatAux ds a = some (a * 10 ^ ds.length + n)) ∧
      (n ≠ 0 → ds.head? ≠ some '0') ∧ (n = 0 → ds = ['0']) := by
  induction f generalizing n acc with
  | zero => omega
  | succ f ih =>
    unfold showNatAux
    by_cases h10 : n < 10
    · simp only [h10, if_true]
      have hd := isDigit_digitChar n h10
      refine ⟨[digitChar n], by simp, by simp, ?_, ?_, ?_, ?_⟩
      · intro c hc; simp at hc; subst hc; exact hd.1
      · intro a; simp [parseNatAux, hd.1, hd.2]
      · intro hn
        have : n = 1 ∨ n = 2 ∨ n = 3 ∨ n = 4 ∨ n = 5 ∨ n = 6 ∨ n = 7 ∨ n = 8 ∨ n = 9 := by omega
        rcases this with h | h | h | h | h | h | h | h | h <;> subst h <;> decide
      · intro hn; subst hn; rfl
    · simp only [h10, if_false]
      have hlt : n / 10 < f := by omega
      obtain ⟨ds, he, hne, hdig, hparse, hhead, _⟩ := ih (n / 10) (digitChar (n % 10) :: acc) hlt
      have hd := isDigit_digitChar (n % 10) (by omega)
      refine ⟨ds ++ [digitChar (n % 10)], by simp [he], by simp, ?_, ?_, ?_, ?_⟩
      · intro c hc
        rcases List.mem_append.mp hc with h | h
        · exact hdig c h
        · simp at h; subst h; exact hd.1
      · intro a
        rw [parseNatAux_append, hparse a]
        simp only [Option.bind, parseNatAux, hd.1, hd.2, if_true, List.length_append, List.length_cons,
          List.length_nil]
        congr 1
        rw [Nat.pow_succ]
        have := Nat.div_add_mod n 10
        rw [Nat.add_mul, Nat.mul_assoc]
        omega
      · intro _
        have hn0 : n / 10 ≠ 0 := by omega
        have := hhead hn0
        cases ds with
        | nil => exact absurd rfl hne
        | cons x xs => simpa using this
      · intro hn; omega

theorem showNat_spec (n : Nat) :
    showNat n ≠ [] ∧ (∀ c ∈ showNat n, isDigit c = true) ∧ parseNatAux (showNat n) 0 = some n ∧
      (n ≠ 0 → (showNat n).head? ≠ some '0') ∧ (n = 0 → showNat n = ['0']) := by
  obtain ⟨ds, he, hne, hdig, hparse, hhead, hz⟩ := showNatAux_spec (n + 1) n [] (by omega)
  have : showNat n = ds := by simp [showNat, he]
  rw [this]
  exact ⟨hne, hdig, by simpa using hparse 0, hhead, hz⟩

theorem parseInt_showNat (n : Nat) : parseInt (showNat n) = some (Int.ofNat n) := by
  obtain ⟨hne, hdig, hparse, hhead, hz⟩ := showNat_spec n
  by_cases h0 : n = 0
  · subst h0; rw [hz rfl]; rfl
  · have hh := hhead h0
    cases hs : showNat n with
    | nil => exact absurd hs hne
    | cons c cs =>
      rw [hs] at hh hparse hdig
      have hc0 : c ≠ '0' := by simpa using hh
      have hcm : c ≠ '-' := by
        intro e; have := hdig c (by simp); rw [e] at this; revert this; decide
      unfold parseInt
      split
      · simp at *
      · simp_all
      · simp_all
      · simp_all
      · simp [hparse]

theorem parseInt_showInt (n : Int) (h : 0 ≤ n) : parseInt (showInt n) = some n := by
  cases n with
  | ofNat m => exact parseInt_showNat m
  | negSucc m => exact absurd h (by simp)

/-! ## scalars -/

/-- a string that the loader reads back as itself when it is written as a plain scalar -/
def plainOK (s : Str) : Bool :=
  match s with
  | [] => false
  | c :: cs =>
    !isSp c && !decide (c = '"') && !plainFirstBad c && !plainFirstBad2 c cs && !plainBodyBad (c :: cs) &&
    !nullWords.contains (c :: cs) && decide (dropRight isSp (c :: cs) = c :: cs) && !(c :: cs).contains '\n'

theorem parseScalar_plain (s : Str) (h : plainOK s = true) : parseScalar s = .str s := by
  cases s with
  | nil => simp [plainOK] at h
  | cons c cs =>
    simp only [plainOK, Bool.and_eq_true, Bool.not_eq_true', decide_eq_false_iff_not, decide_eq_true_eq] at h
    obtain ⟨⟨⟨⟨⟨⟨⟨h1, h2⟩, h3⟩, h4⟩, h5⟩, h6⟩, h7⟩, _⟩ := h
    have h6' : c :: cs ∉ nullWords := by simpa using h6
    unfold parseScalar
    simp only [List.dropWhile, h1, h7]
    simp [h2, h3, h4, h5, h6']

theorem plainOK_noNL (s : Str) (h : plainOK s = true) : '\n' ∉ s := by
  cases s with
  | nil => simp
  | cons c cs =>
    simp only [plainOK, Bool.and_eq_true, Bool.not_eq_true'] at h
    have := h.2
    intro hm
    have : (c :: cs).contains '\n' = true := by simpa using hm
    simp_all

theorem plainOK_not_allSp (s : Str) (h : plainOK s = true) : s.all isSp = false := by
  cases s with
  | nil => simp [plainOK] at h
  | cons c cs =>
    simp only [plainOK, Bool.and_eq_true, Bool.not_eq_true'] at h
    simp [h.1.1.1.1.1.1.1]

theorem contains_false_of (P : Char → Bool) (l : List Char) (hl : l.all (fun x => !P x) = true) (c : Char)
    (hc : P c = true) : l.contains c = false := by
  cases h : l.contains c with
  | false => rfl
  | true =>
    have hm : c ∈ l := by simpa using h
    have := List.all_eq_true.mp hl c hm
    simp [hc] at this

theorem plainBodyBad_false (s : Str) (h : ∀ c ∈ s, c ≠ '#' ∧ c ≠ ':' ∧ c ≠ '\t') : plainBodyBad s = false := by
  induction s with
  | nil => rfl
  | cons a t ih =>
    have ha := h a (by simp)
    cases t with
    | nil => simp [plainBodyBad, ha.2.1, ha.2.2]
    | cons b r =>
      have hb := h b (by simp)
      have := ih (fun c hc => h c (by simp [List.mem_cons] at hc ⊢; exact Or.inr hc))
      simp [plainBodyBad, ha.2.1, ha.2.2, hb.1, this]

theorem safeChar_facts (c : Char) (h : safeChar c = true) : c ≠ '#' ∧ c ≠ ':' ∧ c ≠ '\t' ∧ c ≠ '\n' := by
  refine ⟨?_, ?_, ?_, ?_⟩ <;> (intro e; subst e; revert h; decide)

theorem safeFirst_safeChar (c : Char) (h : safeFirst c = true) : safeChar c = true := by
  simp only [safeFirst, Bool.or_eq_true, decide_eq_true_eq] at h
  rcases h with ((h | h) | h) | h
  · simp [safeChar, h]
  · subst h; decide
  · subst h; decide
  · subst h; decide

theorem safeStr_plainOK (s : Str) (h : safeStr s = true) : plainOK s = true := by
  cases s with
  | nil => simp [safeStr] at h
  | cons c cs =>
    simp only [safeStr, Bool.and_eq_true, Bool.not_eq_true', decide_eq_true_eq, List.all_eq_true] at h
    obtain ⟨⟨⟨hf, hall⟩, htrim⟩, hnull⟩ := h
    have hall' : ∀ x ∈ c :: cs, safeChar x = true := by
      intro x hx
      rcases List.mem_cons.mp hx with e | e
      · subst e; exact safeFirst_safeChar _ hf
      · exact hall x e
    have h1 : isSp c = false := by
      cases hh : isSp c with
      | false => rfl
      | true => simp [isSp] at hh; subst hh; revert hf; decide
    have h2 : c ≠ '"' := by intro e; subst e; revert hf; decide
    have h3 : plainFirstBad c = false := contains_false_of safeFirst _ (by decide) c hf
    have h4 : plainFirstBad2 c cs = false := by
      have : (c = '-' ∨ c = '?' ∨ c = ':') → False := by
        rintro (e | e | e) <;> (subst e; revert hf; decide)
      simp only [plainFirstBad2]
      cases hc : (decide (c = '-') || decide (c = '?') || decide (c = ':')) with
      | false => simp
      | true =>
        simp only [Bool.or_eq_true, decide_eq_true_eq] at hc
        exact absurd (by rcases hc with (e | e) | e <;> simp [e]) this
    have h5 : plainBodyBad (c :: cs) = false :=
      plainBodyBad_false _ (fun x hx => by have := safeChar_facts x (hall' x hx); exact ⟨this.1, this.2.1, this.2.2.1⟩)
    have h8 : (c :: cs).contains '\n' = false := by
      cases hh : (c :: cs).contains '\n' with
      | false => rfl
      | true =>
        have hm : '\n' ∈ c :: cs := by simpa using hh
        exact absurd rfl (safeChar_facts _ (hall' _ hm)).2.2.2
    simp only [plainOK, h1, h2, h3, h4, h5, hnull, htrim, h8]
    decide

/-! ## double-quoted items -/

theorem unquote_quoteBody (s : Str) : unquote (quoteBody s ++ ['"']) = some s := by
  induction s with
  | nil => simp [quoteBody, unquote]
  | cons c cs ih =>
    have hq : quoteBody (c :: cs) = quoteChar c ++ quoteBody cs := by simp [quoteBody]
    rw [hq, List.append_assoc]
    unfold quoteChar
    by_cases h1 : c = '"'
    · subst h1; simp [unquote, ih]
    · by_cases h2 : c = '\\'
      · subst h2; simp [unquote, ih]
      · by_cases h3 : c = '\n'
        · subst h3; simp [unquote, ih]
        · by_cases h4 : c = '\t'
          · subst h4; simp [unquote, ih]
          · by_cases h5 : c = '\r'
            · subst h5; simp [unquote, ih]
            · simp only [h1, h2, h3, h4, h5, if_false, List.singleton_append]
              unfold unquote
              simp [h1, h2, ih]

theorem parseScalar_quoteGo (s : Str) : parseScalar (quoteGo s) = .str s := by
  unfold parseScalar quoteGo
  have h1 : List.dropWhile isSp ('"' :: (quoteBody s ++ ['"'])) = '"' :: (quoteBody s ++ ['"']) := by
    simp [List.dropWhile, isSp]
  have h2 : dropRight isSp ('"' :: (quoteBody s ++ ['"'])) = '"' :: (quoteBody s ++ ['"']) :=
    dropRight_append_last isSp ('"' :: quoteBody s) '"' (by decide)
  rw [h1, h2]
  simp [unquote_quoteBody]

theorem quoteChar_noNL (c : Char) : '\n' ∉ quoteChar c := by
  by_cases h3 : c = '\n'
  · subst h3; decide
  · unfold quoteChar
    repeat' split
    all_goals simp
    exact fun e => h3 e.symm

theorem quoteGo_noNL (s : Str) : '\n' ∉ quoteGo s := by
  have hb : '\n' ∉ quoteBody s := by
    induction s with
    | nil => simp [quoteBody]
    | cons c cs ih =>
      have hq : quoteBody (c :: cs) = quoteChar c ++ quoteBody cs := by simp [quoteBody]
      rw [hq]
      intro hm
      rcases List.mem_append.mp hm with h | h
      · exact quoteChar_noNL c h
      · exact ih h
  intro hm
  simp [quoteGo] at hm
  exact hb hm

/-! ## the template as a list of entries

`toEntries` regroups the segment table into entries (comment lines, key, field, shape); it is
not trusted: `fromEntries` rebuilds a segment table from the entries compositionally and the
property file checks `fromEntries (toEntries T) = T` on the extracted table in the kernel. -/

inductive EK where
  | scalar | listRaw | listQ
  deriving DecidableEq, Repr

structure Entry where
  pre : List Str
  key : Str
  field : String
  kind : EK
  deriving DecidableEq, Repr

def itemPrefix : Str := ['\n', ' ', ' ', '-', ' ']
def bodyRaw : List TItem := [.lit itemPrefix, .dot]
def bodyQ : List TItem := [.lit itemPrefix, .dotq]

def keySuffix (k : EK) : Str := if k = .scalar then [':', ' '] else [':']

def litEntry (lit : Str) (k : EK) : Option (List Str × Str) :=
  let ls := splitNL lit
  let last := ls.getLast?.getD []
  let n := last.length - (keySuffix k).length
  if last.drop n = keySuffix k then some (ls.dropLast, last.take n) else none

def toEntries : Bool → List TSeg → List Entry
  | first, .lit s :: .field n :: t =>
    match litEntry (if first then s else s.drop 1) .scalar with
    | some (pre, key) => ⟨pre, key, n, .scalar⟩ :: toEntries false t
    | none => []
  | first, .lit s :: .range n body :: t =>
    let k := if body = bodyRaw then EK.listRaw else EK.listQ
    match litEntry (if first then s else s.drop 1) k with
    | some (pre, key) => ⟨pre, key, n, k⟩ :: toEntries false t
    | none => []
  | _, _ => []

def preText : List Str → Str → Str
  | [], rest => rest
  | l :: ls, rest => l ++ '\n' :: preText ls rest

def entryLit (first : Bool) (e : Entry) : Str :=
  (if first then [] else ['\n']) ++ preText e.pre (e.key ++ keySuffix e.kind)

def entrySeg (e : Entry) : TSeg :=
  match e.kind with
  | .scalar => .field e.field
  | .listRaw => .range e.field bodyRaw
  | .listQ => .range e.field bodyQ

def fromEntries : Bool → List Entry → List TSeg
  | _, [] => [.lit ['\n']]
  | first, e :: es => .lit (entryLit first e) :: entrySeg e :: fromEntries false es

def valText (c : Cfg) (e : Entry) (rest : Str) : Str :=
  match e.kind with
  | .scalar => ' ' :: (fieldText false c e.field ++ rest)
  | .listRaw => renderRange false bodyRaw (fieldList c e.field) rest
  | .listQ => renderRange false bodyQ (fieldList c e.field) rest

/-- the rendered text without the newline that separates it from what precedes -/
def bodyText (c : Cfg) : List Entry → Str
  | [] => []
  | e :: es => preText e.pre (e.key ++ ':' :: valText c e ('\n' :: bodyText c es))

theorem preText_append (pre : List Str) (a b : Str) : preText pre a ++ b = preText pre (a ++ b) := by
  induction pre with
  | nil => rfl
  | cons l ls ih => simp [preText, ih]

theorem render_fromEntries_false (c : Cfg) (es : List Entry) :
    renderSegs false c (fromEntries false es) = '\n' :: bodyText c es := by
  induction es with
  | nil => simp [fromEntries, renderSegs, bodyText]
  | cons e es ih =>
    simp only [fromEntries, renderSegs, bodyText, entryLit, if_false, Bool.false_eq_true]
    cases hk : e.kind <;>
      simp [entrySeg, hk, renderSegs, ih, valText, keySuffix, preText_append]

theorem render_fromEntries_true (c : Cfg) (e : Entry) (es : List Entry) :
    renderSegs false c (fromEntries true (e :: es)) = bodyText c (e :: es) := by
  simp only [fromEntries, renderSegs, bodyText, entryLit, if_true]
  cases hk : e.kind <;>
    simp [entrySeg, hk, renderSegs, render_fromEntries_false, valText, keySuffix, preText_append]

/-! ## lines of the rendered text -/

def itemLine (q : Bool) (v : Str) : Str := ' ' :: ' ' :: '-' :: ' ' :: (if q then quoteGo v else v)

def entryLines (c : Cfg) (e : Entry) : List Str :=
  e.pre ++
    match e.kind with
    | .scalar => [e.key ++ ':' :: ' ' :: fieldText false c e.field]
    | .listRaw => (e.key ++ [':']) :: (fieldList c e.field).map (itemLine false)
    | .listQ => (e.key ++ [':']) :: (fieldList c e.field).map (itemLine true)

def bodyLines (c : Cfg) : List Entry → List Str
  | [] => [[]]
  | e :: es => entryLines c e ++ bodyLines c es

def isSkip : LK → Bool
  | .skip => true
  | _ => false

def keyOK (k : Str) : Bool := !k.isEmpty && k.all Char.isAlphanum

/-- what is checked once on the extracted table (closed, decided in the kernel) -/
def staticOK (e : Entry) : Bool :=
  e.pre.all (fun l => !l.contains '\n' && isSkip (classify l)) && keyOK e.key

/-- what the round trip needs of the values -/
def dynOK (c : Cfg) (e : Entry) : Prop :=
  match e.kind with
  | .scalar => plainOK (fieldText false c e.field) = true
  | .listRaw => ∀ v ∈ fieldList c e.field, plainOK v = true
  | .listQ => True

theorem splitNL_preText (pre : List Str) (rest : Str) (h : ∀ l ∈ pre, '\n' ∉ l) :
    splitNL (preText pre rest) = pre ++ splitNL rest := by
  induction pre with
  | nil => rfl
  | cons l ls ih =>
    simp only [preText, splitNL] at ih ⊢
    rw [splitOnChar_append _ _ _ (h l (by simp)), ih (fun x hx => h x (by simp [hx]))]
    rfl

theorem splitNL_range (q : Bool) (items : List Str) (a rest : Str) (ha : '\n' ∉ a)
    (hi : ∀ v ∈ items, '\n' ∉ (if q then quoteGo v else v)) :
    splitNL (a ++ renderRange false (if q then bodyQ else bodyRaw) items ('\n' :: rest))
      = a :: (items.map (itemLine q) ++ splitNL rest) := by
  induction items generalizing a with
  | nil => simp [renderRange, splitNL, splitOnChar_append _ _ _ ha]
  | cons v vs ih =>
    have hv := hi v (by simp)
    have hrest := ih (' ' :: ' ' :: '-' :: ' ' :: (if q then quoteGo v else v))
      (by intro hm; simp at hm; exact hv hm) (fun x hx => hi x (by simp [hx]))
    cases q
    · simp only [renderRange, bodyRaw, renderBody, itemPrefix, esc, if_false, Bool.false_eq_true] at hrest ⊢
      simp only [List.cons_append, List.nil_append, splitNL] at hrest ⊢
      rw [splitOnChar_append _ _ _ ha]
      simp only [List.map_cons, itemLine, if_false, Bool.false_eq_true, List.cons_append]
      rw [← hrest]
    · simp only [renderRange, bodyQ, renderBody, itemPrefix, esc, if_true, if_false, Bool.false_eq_true] at hrest ⊢
      simp only [List.cons_append, List.nil_append, splitNL] at hrest ⊢
      rw [splitOnChar_append _ _ _ ha]
      simp only [List.map_cons, itemLine, if_true, List.cons_append]
      rw [← hrest]

theorem keyOK_noNL (k : Str) (h : keyOK k = true) : '\n' ∉ k := by
  simp only [keyOK, Bool.and_eq_true, List.all_eq_true] at h
  intro hm
  have := h.2 _ hm
  revert this; decide

theorem staticOK_pre (e : Entry) (h : staticOK e = true) :
    (∀ l ∈ e.pre, '\n' ∉ l) ∧ (∀ l ∈ e.pre, classify l = .skip) ∧ keyOK e.key = true := by
  simp only [staticOK, Bool.and_eq_true, List.all_eq_true, Bool.not_eq_true'] at h
  refine ⟨fun l hl hm => ?_, fun l hl => ?_, h.2⟩
  · have := (h.1 l hl).1
    simp at this
    exact this hm
  · have := (h.1 l hl).2
    cases hcl : classify l <;> simp [hcl, isSkip] at this ⊢

theorem splitNL_bodyText (c : Cfg) (es : List Entry)
    (h : ∀ e ∈ es, staticOK e = true ∧ dynOK c e) : splitNL (bodyText c es) = bodyLines c es := by
  induction es with
  | nil => rfl
  | cons e es ih =>
    obtain ⟨hst, hdyn⟩ := h e (by simp)
    obtain ⟨hpre, _, hkey⟩ := staticOK_pre e hst
    have ih' := ih (fun x hx => h x (by simp [hx]))
    have hk := keyOK_noNL _ hkey
    simp only [bodyText, bodyLines, entryLines]
    rw [splitNL_preText _ _ hpre, List.append_assoc]
    congr 1
    cases hkind : e.kind with
    | scalar =>
      simp only [dynOK, hkind] at hdyn
      have hv := plainOK_noNL _ hdyn
      simp only [valText, hkind]
      have : e.key ++ ':' :: ' ' :: (fieldText false c e.field ++ '\n' :: bodyText c es)
          = (e.key ++ ':' :: ' ' :: fieldText false c e.field) ++ '\n' :: bodyText c es := by simp
      rw [this]
      simp only [splitNL] at ih' ⊢
      rw [splitOnChar_append, ih']
      · rfl
      · intro hm
        simp only [List.mem_append, List.mem_cons] at hm
        rcases hm with hm | hm | hm | hm
        · exact hk hm
        · revert hm; decide
        · revert hm; decide
        · exact hv hm
    | listRaw =>
      simp only [dynOK, hkind] at hdyn
      simp only [valText, hkind]
      have := splitNL_range false (fieldList c e.field) (e.key ++ [':']) (bodyText c es)
        (by intro hm; simp at hm; exact hk hm)
        (fun v hv => by simpa using plainOK_noNL _ (hdyn v hv))
      simp only [if_false, Bool.false_eq_true, List.append_assoc, List.singleton_append] at this
      rw [this, ih']
      simp
    | listQ =>
      simp only [valText, hkind]
      have := splitNL_range true (fieldList c e.field) (e.key ++ [':']) (bodyText c es)
        (by intro hm; simp at hm; exact hk hm)
        (fun v _ => by simpa using quoteGo_noNL v)
      simp only [if_true, List.append_assoc, List.singleton_append] at this
      rw [this, ih']
      simp

/-! ## classification of the emitted lines -/

theorem alnum_facts (c : Char) (h : c.isAlphanum = true) : c ≠ ':' ∧ c ≠ ' ' ∧ c ≠ '#' := by
  refine ⟨?_, ?_, ?_⟩ <;> (intro e; subst e; revert h; decide)

theorem splitKey_key (k r : Str) (hk : ∀ c ∈ k, c.isAlphanum = true) :
    splitKey (k ++ ':' :: ' ' :: r) = some (k, r) ∧ splitKey (k ++ [':']) = some (k, []) := by
  induction k with
  | nil => simp [splitKey]
  | cons c cs ih =>
    have hc := hk c (by simp)
    have ih' := ih (fun x hx => hk x (by simp [hx]))
    have hne := (alnum_facts c hc).1
    constructor
    · show splitKey (c :: (cs ++ ':' :: ' ' :: r)) = _
      unfold splitKey
      simp [hne, hc, ih'.1]
    · show splitKey (c :: (cs ++ [':'])) = _
      unfold splitKey
      simp [hne, hc, ih'.2]

theorem classify_alnum_head (c : Char) (cs : Str) (hc : c.isAlphanum = true) :
    classify (c :: cs) = match splitKey (c :: cs) with
      | some ([], _) => .bad
      | some (k, r) => .key k r
      | none => .bad := by
  obtain ⟨_, h2, h3⟩ := alnum_facts c hc
  unfold classify
  have : (c :: cs).all isSp = false := by simp [isSp, h2]
  rw [this]
  simp only [Bool.false_eq_true, if_false]
  split
  · rename_i heq; cases heq; exact absurd rfl h3
  · rename_i heq; cases heq; exact absurd rfl h2
  · rename_i heq; cases heq; exact absurd rfl h2
  · rfl

theorem classify_keyline (k r : Str) (hk : keyOK k = true) :
    classify (k ++ ':' :: ' ' :: r) = .key k r ∧ classify (k ++ [':']) = .key k [] := by
  simp only [keyOK, Bool.and_eq_true, List.all_eq_true, Bool.not_eq_true'] at hk
  cases k with
  | nil => simp at hk
  | cons c cs =>
    have hall := hk.2
    have hc := hall c (by simp)
    have hs := splitKey_key (c :: cs) r hall
    constructor
    · show classify (c :: (cs ++ ':' :: ' ' :: r)) = _
      rw [classify_alnum_head _ _ hc]
      have h1 : c :: (cs ++ ':' :: ' ' :: r) = (c :: cs) ++ ':' :: ' ' :: r := rfl
      rw [h1, hs.1]
    · show classify (c :: (cs ++ [':'])) = _
      rw [classify_alnum_head _ _ hc]
      have h1 : c :: (cs ++ [':']) = (c :: cs) ++ [':'] := rfl
      rw [h1, hs.2]

theorem classify_itemLine (q : Bool) (v : Str) :
    classify (itemLine q v) = .item (if q then quoteGo v else v) := by
  unfold classify itemLine
  have : (' ' :: ' ' :: '-' :: ' ' :: (if q then quoteGo v else v)).all isSp = false := by
    simp [List.all, isSp]
  rw [this]
  rfl

/-! ## parsing the emitted lines -/

def valOf (c : Cfg) (e : Entry) : RV :=
  match e.kind with
  | .scalar => .scalar (.str (fieldText false c e.field))
  | .listRaw => .list ((fieldList c e.field).map .str)
  | .listQ => .list ((fieldList c e.field).map .str)

def rawOf (c : Cfg) (es : List Entry) : Raw := es.map (fun e => (e.key, valOf c e))

theorem parseLines_skip (cur : Option (Str × List SV)) (pre rest : List Str) (h : ∀ l ∈ pre, classify l = .skip) :
    parseLines cur (pre ++ rest) = parseLines cur rest := by
  induction pre with
  | nil => rfl
  | cons l ls ih =>
    show parseLines cur (l :: (ls ++ rest)) = _
    rw [parseLines, h l (by simp)]
    exact ih (fun x hx => h x (by simp [hx]))

theorem parseLines_items (q : Bool) (k : Str) (acc : List SV) (items : List Str) (rest : List Str)
    (h : ∀ v ∈ items, parseScalar (if q then quoteGo v else v) = .str v) :
    parseLines (some (k, acc)) (items.map (itemLine q) ++ rest)
      = parseLines (some (k, acc ++ items.map .str)) rest := by
  induction items generalizing acc with
  | nil => simp
  | cons v vs ih =>
    show parseLines (some (k, acc)) (itemLine q v :: (vs.map (itemLine q) ++ rest)) = _
    rw [parseLines, classify_itemLine]
    simp only [h v (by simp)]
    rw [ih _ (fun x hx => h x (by simp [hx]))]
    simp

theorem parse_bodyLines (c : Cfg) (es : List Entry) (cur : Option (Str × List SV))
    (h : ∀ e ∈ es, staticOK e = true ∧ dynOK c e) :
    parseLines cur (bodyLines c es) = some (flush cur ++ rawOf c es) := by
  induction es generalizing cur with
  | nil =>
    have : classify [] = .skip := by simp [classify]
    simp [bodyLines, parseLines, this, rawOf]
  | cons e es ih =>
    obtain ⟨hst, hdyn⟩ := h e (by simp)
    obtain ⟨_, hskip, hkey⟩ := staticOK_pre e hst
    have ih' := fun cur => ih cur (fun x hx => h x (by simp [hx]))
    simp only [bodyLines, entryLines, List.append_assoc]
    rw [parseLines_skip _ _ _ hskip]
    cases hkind : e.kind with
    | scalar =>
      simp only [dynOK, hkind] at hdyn
      simp only [List.singleton_append]
      rw [parseLines, (classify_keyline e.key _ hkey).1]
      simp only [plainOK_not_allSp _ hdyn, Bool.false_eq_true, if_false, parseScalar_plain _ hdyn, ih' none]
      simp [flush, rawOf, valOf, hkind]
    | listRaw =>
      simp only [dynOK, hkind] at hdyn
      simp only [List.cons_append]
      rw [parseLines, (classify_keyline e.key [] hkey).2]
      simp only [List.all_nil, if_true]
      rw [parseLines_items false _ _ _ _ (fun v hv => by simpa using parseScalar_plain _ (hdyn v hv)), ih']
      simp [flush, rawOf, valOf, hkind]
    | listQ =>
      simp only [List.cons_append]
      rw [parseLines, (classify_keyline e.key [] hkey).2]
      simp only [List.all_nil, if_true]
      rw [parseLines_items true _ _ _ _ (fun v _ => by simpa using parseScalar_quoteGo v), ih']
      simp [flush, rawOf, valOf, hkind]

/-! ## reading the values back -/

/-- Go field and shape of the entry that carries a yaml key -/
def sig (es : List Entry) (key : String) : Option (String × EK) :=
  (es.find? (fun e => e.key = key.toList)).map (fun e => (e.field, e.kind))

theorem lookup_rawOf (c : Cfg) (es : List Entry) (key : String) :
    lookup (rawOf c es) key = (es.find? (fun e => e.key = key.toList)).map (valOf c) := by
  induction es with
  | nil => simp [lookup, rawOf]
  | cons e es ih =>
    simp only [lookup, rawOf, List.map_cons, List.find?_cons] at ih ⊢
    by_cases h : e.key = key.toList
    · simp [h]
    · simp only [h, decide_false]
      exact ih

theorem sig_some {es : List Entry} {key f : String} {k : EK} (h : sig es key = some (f, k)) :
    ∃ e, es.find? (fun e => e.key = key.toList) = some e ∧ e.field = f ∧ e.kind = k := by
  unfold sig at h
  cases hf : es.find? (fun e => e.key = key.toList) with
  | none => simp [hf] at h
  | some e =>
    simp [hf] at h
    exact ⟨e, rfl, h.1, h.2⟩

theorem getStr_sig {c : Cfg} {es : List Entry} {key f : String} {v : Str}
    (h : sig es key = some (f, .scalar)) (hf : c.field f = some (.str v)) :
    getStr (rawOf c es) key = some v := by
  obtain ⟨e, he, h1, h2⟩ := sig_some h
  simp [getStr, lookup_rawOf, he, valOf, h1, h2, fieldText, hf, esc]

theorem getInt_sig {c : Cfg} {es : List Entry} {key f : String} {n : Int}
    (h : sig es key = some (f, .scalar)) (hf : c.field f = some (.int n)) (hn : 0 ≤ n) :
    getInt (rawOf c es) key = some n := by
  obtain ⟨e, he, h1, h2⟩ := sig_some h
  simp [getInt, lookup_rawOf, he, valOf, h1, h2, fieldText, hf, parseInt_showInt n hn]

theorem parseBool_showBool (b : Bool) : parseBool (showBool b) = some b := by
  cases b <;> decide

theorem getBool_sig {c : Cfg} {es : List Entry} {key f : String} {b : Bool}
    (h : sig es key = some (f, .scalar)) (hf : c.field f = some (.bool b)) :
    getBool (rawOf c es) key = some b := by
  obtain ⟨e, he, h1, h2⟩ := sig_some h
  simp [getBool, lookup_rawOf, he, valOf, h1, h2, fieldText, hf, parseBool_showBool]

theorem itemsStr_str (l : List Str) : itemsStr (l.map .str) = some l := by
  induction l with
  | nil => rfl
  | cons v vs ih => simp [itemsStr, ih]

theorem getList_sig {c : Cfg} {es : List Entry} {key f : String} {k : EK} {l : List Str}
    (h : sig es key = some (f, k)) (hk : k ≠ .scalar) (hf : c.field f = some (.list l)) :
    getList (rawOf c es) key = some l := by
  obtain ⟨e, he, h1, h2⟩ := sig_some h
  cases k with
  | scalar => exact absurd rfl hk
  | listRaw => simp [getList, lookup_rawOf, he, valOf, h1, h2, fieldList, hf, itemsStr_str]
  | listQ => simp [getList, lookup_rawOf, he, valOf, h1, h2, fieldList, hf, itemsStr_str]

/-- every yaml key the loader reads is carried by an entry of the right field and shape -/
def sigsOK (es : List Entry) : Bool :=
  sig es "appName" = some ("AppName", .scalar) && sig es "appVersion" = some ("AppVersion", .scalar) &&
  sig es "oldBranch" = some ("OldBranch", .scalar) && sig es "newBranch" = some ("NewBranch", .scalar) &&
  sig es "ignores" = some ("Ignores", .listRaw) && sig es "goatPackageName" = some ("GoatPackageName", .scalar) &&
  sig es "goatPackageAlias" = some ("GoatPackageAlias", .scalar) &&
  sig es "goatPackagePath" = some ("GoatPackagePath", .scalar) && sig es "granularity" = some ("Granularity", .scalar) &&
  sig es "diffPrecision" = some ("DiffPrecision", .scalar) && sig es "threads" = some ("Threads", .scalar) &&
  sig es "race" = some ("Race", .scalar) && sig es "mainEntries" = some ("MainEntries", .listQ) &&
  sig es "printerConfigMode" = some ("PrinterConfigMode", .listQ) &&
  sig es "printerConfigTabwidth" = some ("PrinterConfigTabwidth", .scalar) &&
  sig es "printerConfigIndent" = some ("PrinterConfigIndent", .scalar) && sig es "dataType" = some ("DataType", .scalar) &&
  sig es "verbose" = some ("Verbose", .scalar) && sig es "skipNestedModules" = some ("SkipNestedModules", .scalar)

/-- the values for which the round trip is claimed: plain-scalar-safe strings, non-negative
    numbers (what `validate` produces); `mainEntries` and `printerModes` are unrestricted -/
structure RoundTripOK (c : Cfg) : Prop where
  appName : safeStr c.appName = true
  appVersion : safeStr c.appVersion = true
  oldBranch : safeStr c.oldBranch = true
  newBranch : safeStr c.newBranch = true
  ignores : ∀ v ∈ c.ignores, safeStr v = true
  pkgName : safeStr c.pkgName = true
  pkgAlias : safeStr c.pkgAlias = true
  pkgPath : safeStr c.pkgPath = true
  granularity : safeStr c.granularity = true
  dataType : safeStr c.dataType = true
  diffPrecision : 0 ≤ c.diffPrecision
  threads : 0 ≤ c.threads
  tabwidth : 0 ≤ c.tabwidth
  indent : 0 ≤ c.indent

theorem fromRaw_rawOf (c : Cfg) (es : List Entry) (hs : sigsOK es = true) (hc : RoundTripOK c) :
    fromRaw (rawOf c es) = some c := by
  simp only [sigsOK, Bool.and_eq_true, decide_eq_true_eq] at hs
  obtain ⟨⟨⟨⟨⟨⟨⟨⟨⟨⟨⟨⟨⟨⟨⟨⟨⟨⟨s1, s2⟩, s3⟩, s4⟩, s5⟩, s6⟩, s7⟩, s8⟩, s9⟩, s10⟩, s11⟩, s12⟩, s13⟩, s14⟩, s15⟩, s16⟩, s17⟩, s18⟩, s19⟩ := hs
  have g1 := getStr_sig (c := c) (v := c.appName) s1 (by simp [Cfg.field])
  have g2 := getStr_sig (c := c) (v := c.appVersion) s2 (by simp [Cfg.field])
  have g3 := getStr_sig (c := c) (v := c.oldBranch) s3 (by simp [Cfg.field])
  have g4 := getStr_sig (c := c) (v := c.newBranch) s4 (by simp [Cfg.field])
  have g5 := getList_sig (c := c) (l := c.ignores) s5 (by decide) (by simp [Cfg.field])
  have g6 := getStr_sig (c := c) (v := c.pkgName) s6 (by simp [Cfg.field])
  have g7 := getStr_sig (c := c) (v := c.pkgAlias) s7 (by simp [Cfg.field])
  have g8 := getStr_sig (c := c) (v := c.pkgPath) s8 (by simp [Cfg.field])
  have g9 := getStr_sig (c := c) (v := c.granularity) s9 (by simp [Cfg.field])
  have g10 := getInt_sig (c := c) (n := c.diffPrecision) s10 (by simp [Cfg.field]) hc.diffPrecision
  have g11 := getInt_sig (c := c) (n := c.threads) s11 (by simp [Cfg.field]) hc.threads
  have g12 := getBool_sig (c := c) (b := c.race) s12 (by simp [Cfg.field])
  have g13 := getList_sig (c := c) (l := c.mainEntries) s13 (by decide) (by simp [Cfg.field])
  have g14 := getList_sig (c := c) (l := c.printerModes) s14 (by decide) (by simp [Cfg.field])
  have g15 := getInt_sig (c := c) (n := c.tabwidth) s15 (by simp [Cfg.field]) hc.tabwidth
  have g16 := getInt_sig (c := c) (n := c.indent) s16 (by simp [Cfg.field]) hc.indent
  have g17 := getStr_sig (c := c) (v := c.dataType) s17 (by simp [Cfg.field])
  have g18 := getBool_sig (c := c) (b := c.verbose) s18 (by simp [Cfg.field])
  have g19 := getBool_sig (c := c) (b := c.skipNested) s19 (by simp [Cfg.field])
  simp only [fromRaw, g1, g2, g3, g4, g5, g6, g7, g8, g9, g10, g11, g12, g13, g14, g15, g16, g17, g18, g19]

/-! ## numbers and booleans are plain-scalar safe -/

theorem dropRight_id (p : Char → Bool) (s : Str) (hne : s ≠ []) (hl : p (s.getLast hne) = false) :
    dropRight p s = s := by
  have := List.dropLast_concat_getLast hne
  rw [← this]
  exact dropRight_append_last p _ _ hl

theorem isDigit_alnum (c : Char) (h : isDigit c = true) : c.isAlphanum = true := by
  simp only [isDigit, Bool.and_eq_true, decide_eq_true_eq] at h
  have hc : c = Char.ofNat c.toNat := (Char.ofNat_toNat c).symm
  have : c.toNat = 48 ∨ c.toNat = 49 ∨ c.toNat = 50 ∨ c.toNat = 51 ∨ c.toNat = 52 ∨ c.toNat = 53 ∨
      c.toNat = 54 ∨ c.toNat = 55 ∨ c.toNat = 56 ∨ c.toNat = 57 := by omega
  rcases this with e | e | e | e | e | e | e | e | e | e <;> (rw [hc, e]; decide)

theorem safeStr_showNat (n : Nat) : safeStr (showNat n) = true := by
  obtain ⟨hne, hdig, _, _, _⟩ := showNat_spec n
  cases hs : showNat n with
  | nil => exact absurd hs hne
  | cons c cs =>
    rw [hs] at hdig
    have hal : ∀ x ∈ c :: cs, x.isAlphanum = true := fun x hx => isDigit_alnum x (hdig x hx)
    have h1 : safeFirst c = true := by simp [safeFirst, hal c (by simp)]
    have h2 : cs.all safeChar = true := by
      simp only [List.all_eq_true]
      intro x hx
      simp [safeChar, hal x (by simp [hx])]
    have h3 : dropRight isSp (c :: cs) = c :: cs := by
      apply dropRight_id _ _ (by simp)
      have := hal _ (List.getLast_mem (l := c :: cs) (by simp))
      cases hh : isSp ((c :: cs).getLast (by simp)) with
      | false => rfl
      | true => simp [isSp] at hh; rw [hh] at this; revert this; decide
    have h4 : nullWords.contains (c :: cs) = false := by
      cases hh : nullWords.contains (c :: cs) with
      | false => rfl
      | true =>
        have hm : c :: cs ∈ nullWords := by simpa using hh
        have hc := hdig c (by simp)
        simp [nullWords] at hm
        rcases hm with ⟨e, _⟩ | ⟨e, _⟩ | ⟨e, _⟩ | ⟨e, _⟩ <;> (subst e; revert hc; decide)
    have h4' : c :: cs ∉ nullWords := by simpa using h4
    simp [safeStr, h1, h2, h3, h4']

theorem plainOK_showInt (n : Int) (h : 0 ≤ n) : plainOK (showInt n) = true := by
  cases n with
  | ofNat m => exact safeStr_plainOK _ (safeStr_showNat m)
  | negSucc m => exact absurd h (by simp)

theorem plainOK_showBool (b : Bool) : plainOK (showBool b) = true := by
  cases b <;> decide

/-! ## which fields the entries may refer to -/

def scalarFields : List String :=
  ["AppName", "AppVersion", "OldBranch", "NewBranch", "GoatPackageName", "GoatPackageAlias", "GoatPackagePath",
   "Granularity", "DiffPrecision", "Threads", "Race", "PrinterConfigTabwidth", "PrinterConfigIndent", "DataType",
   "Verbose", "SkipNestedModules"]

def fieldsOK (e : Entry) : Bool :=
  match e.kind with
  | .scalar => scalarFields.contains e.field
  | .listRaw => e.field = "Ignores"
  | .listQ => e.field = "MainEntries" || e.field = "PrinterConfigMode"

theorem scalar_plainOK (c : Cfg) (hc : RoundTripOK c) (n : String) (hn : n ∈ scalarFields) :
    plainOK (fieldText false c n) = true ∧ segOK c (.field n) = true := by
  simp only [scalarFields, List.mem_cons, List.mem_nil_iff, or_false] at hn
  rcases hn with e | e | e | e | e | e | e | e | e | e | e | e | e | e | e | e <;> subst e <;>
    simp [fieldText, Cfg.field, esc, segOK, safeStr_plainOK, plainOK_showInt, plainOK_showBool, hc.appName, hc.appVersion,
      hc.oldBranch, hc.newBranch, hc.pkgName, hc.pkgAlias, hc.pkgPath, hc.granularity, hc.dataType,
      hc.diffPrecision, hc.threads, hc.tabwidth, hc.indent]

theorem dynOK_of (c : Cfg) (hc : RoundTripOK c) (e : Entry) (hf : fieldsOK e = true) :
    dynOK c e ∧ segOK c (entrySeg e) = true := by
  unfold fieldsOK at hf
  unfold dynOK entrySeg
  cases hk : e.kind with
  | scalar =>
    simp only [hk, List.contains_iff_mem] at hf ⊢
    exact scalar_plainOK c hc _ hf
  | listRaw =>
    simp only [hk, decide_eq_true_eq] at hf ⊢
    rw [hf]
    refine ⟨fun v hv => ?_, by simp [segOK, Cfg.field, bodyRaw, itemOK]⟩
    have : fieldList c "Ignores" = c.ignores := by simp [fieldList, Cfg.field]
    rw [this] at hv
    exact safeStr_plainOK _ (hc.ignores v hv)
  | listQ =>
    simp only [hk, Bool.or_eq_true, decide_eq_true_eq] at hf ⊢
    rcases hf with hf | hf <;> rw [hf] <;> simp [segOK, Cfg.field, bodyQ, itemOK]

theorem segOK_fromEntries (c : Cfg) (hc : RoundTripOK c) (es : List Entry) (first : Bool)
    (h : ∀ e ∈ es, fieldsOK e = true) : (fromEntries first es).all (segOK c) = true := by
  induction es generalizing first with
  | nil => simp [fromEntries, segOK]
  | cons e es ih =>
    simp only [fromEntries, List.all_cons, segOK, Bool.true_and, Bool.and_eq_true]
    exact ⟨(dynOK_of c hc e (h e (by simp))).2, ih false (fun x hx => h x (by simp [hx]))⟩

/-- **the round trip at the level of entries**: the text rendered from a table built of
    well-formed entries is read back as the same configuration -/
theorem unmarshal_render_entries (c : Cfg) (hc : RoundTripOK c) (e : Entry) (es : List Entry)
    (hst : ∀ x ∈ e :: es, staticOK x = true ∧ fieldsOK x = true) (hs : sigsOK (e :: es) = true) :
    unmarshal (renderSegs false c (fromEntries true (e :: es))) = some c := by
  have hall : ∀ x ∈ e :: es, staticOK x = true ∧ dynOK c x :=
    fun x hx => ⟨(hst x hx).1, (dynOK_of c hc x (hst x hx).2).1⟩
  rw [render_fromEntries_true, unmarshal, splitNL_bodyText c _ hall, parse_bodyLines c _ none hall]
  simp only [flush, List.nil_append]
  exact fromRaw_rawOf c _ hs hc

/-! ## Validate -/

theorem orDefault_idem (s d : Str) : orDefault (orDefault s d) d = orDefault s d := by
  unfold orDefault
  by_cases h : s = [] <;> simp [h]

def validated (env : Env) (c : Cfg) (ver : Str) : Cfg :=
  let path := orDefault c.pkgPath Extracted.defaultPackagePath.toList
  let ign := if c.ignores = [] then baseIgnores else c.ignores
  { appName := orDefault c.appName env.cwdBase
    appVersion := ver
    oldBranch := orDefault c.oldBranch Extracted.defaultOldBranch.toList
    newBranch := orDefault c.newBranch Extracted.defaultNewBranch.toList
    ignores := if ign.contains (genFile path) then ign else ign ++ [genFile path]
    pkgName := orDefault c.pkgName Extracted.defaultPackageName.toList
    pkgAlias := orDefault c.pkgAlias Extracted.defaultPackageAlias.toList
    pkgPath := path
    granularity := orDefault c.granularity Extracted.defaultGranularity.toList
    diffPrecision := c.diffPrecision
    threads := if c.threads ≤ 0 then env.numCPU else c.threads
    race := c.race
    mainEntries := if c.mainEntries = [] then Extracted.defaultMainEntries.map String.toList else c.mainEntries
    printerModes := if c.printerModes = [] then Extracted.defaultPrinterModes.map String.toList else c.printerModes
    tabwidth := if c.tabwidth < 1 then Int.ofNat Extracted.defaultTabwidth else c.tabwidth
    indent := if c.indent < 0 then Int.ofNat Extracted.defaultIndent else c.indent
    dataType := orDefault c.dataType Extracted.defaultDataType.toList
    verbose := c.verbose
    skipNested := c.skipNested }

theorem validate_def (env : Env) (c : Cfg) : validate env c =
    if granularityOK (orDefault c.granularity Extracted.defaultGranularity.toList) = false then .error .granularity else
    if c.diffPrecision < 1 ∨ c.diffPrecision > 3 then .error .precision else
    match (if c.appVersion = [] then env.shortHash (orDefault c.newBranch Extracted.defaultNewBranch.toList)
            else some c.appVersion) with
    | none => .error .hash
    | some ver =>
      if (if c.printerModes = [] then Extracted.defaultPrinterModes.map String.toList else c.printerModes).all modeOK = false
      then .error .printerMode else
      if dataTypeOK (orDefault c.dataType Extracted.defaultDataType.toList) = false then .error .dataType else
      .ok (validated env c ver) := rfl

theorem validate_ok {env : Env} {c c' : Cfg} (h : validate env c = .ok c') :
    ∃ ver, (if c.appVersion = [] then env.shortHash (orDefault c.newBranch Extracted.defaultNewBranch.toList)
              else some c.appVersion) = some ver ∧
      granularityOK (orDefault c.granularity Extracted.defaultGranularity.toList) = true ∧
      1 ≤ c.diffPrecision ∧ c.diffPrecision ≤ 3 ∧
      (if c.printerModes = [] then Extracted.defaultPrinterModes.map String.toList else c.printerModes).all modeOK = true ∧
      dataTypeOK (orDefault c.dataType Extracted.defaultDataType.toList) = true ∧
      c' = validated env c ver := by
  rw [validate_def] at h
  by_cases hg : granularityOK (orDefault c.granularity Extracted.defaultGranularity.toList) = false
  · rw [if_pos hg] at h; cases h
  rw [if_neg hg] at h
  by_cases hp : c.diffPrecision < 1 ∨ c.diffPrecision > 3
  · rw [if_pos hp] at h; cases h
  rw [if_neg hp] at h
  cases hv : (if c.appVersion = [] then env.shortHash (orDefault c.newBranch Extracted.defaultNewBranch.toList)
            else some c.appVersion) with
  | none => rw [hv] at h; cases h
  | some ver =>
    rw [hv] at h
    simp only [] at h
    by_cases hm : (if c.printerModes = [] then Extracted.defaultPrinterModes.map String.toList else c.printerModes).all modeOK = false
    · rw [if_pos hm] at h; cases h
    rw [if_neg hm] at h
    by_cases hd : dataTypeOK (orDefault c.dataType Extracted.defaultDataType.toList) = false
    · rw [if_pos hd] at h; cases h
    rw [if_neg hd] at h
    injection h with h
    exact ⟨ver, rfl, by simpa using hg, by omega, by omega, by simpa using hm, by simpa using hd, h.symm⟩

theorem validate_of {env : Env} {c : Cfg} {ver : Str}
    (hv : (if c.appVersion = [] then env.shortHash (orDefault c.newBranch Extracted.defaultNewBranch.toList)
              else some c.appVersion) = some ver)
    (hg : granularityOK (orDefault c.granularity Extracted.defaultGranularity.toList) = true)
    (hp1 : 1 ≤ c.diffPrecision) (hp3 : c.diffPrecision ≤ 3)
    (hm : (if c.printerModes = [] then Extracted.defaultPrinterModes.map String.toList else c.printerModes).all modeOK = true)
    (hd : dataTypeOK (orDefault c.dataType Extracted.defaultDataType.toList) = true) :
    validate env c = .ok (validated env c ver) := by
  rw [validate_def, if_neg (by simp [hg]), if_neg (by omega), hv]
  simp only []
  rw [if_neg (by simp [hm]), if_neg (by simp [hd])]

theorem ite_nil_idem (l d : List Str) :
    (if (if l = [] then d else l) = [] then d else (if l = [] then d else l)) = (if l = [] then d else l) := by
  by_cases h : l = [] <;> simp [h]

theorem ignores_idem (ign : List Str) (g : Str) (base : List Str) :
    let r := if ign.contains g then ign else ign ++ [g]
    (if (if r = [] then base else r).contains g then (if r = [] then base else r) else (if r = [] then base else r) ++ [g]) = r := by
  intro r
  by_cases h : g ∈ ign
  · have hr : r = ign := by simp [r, h]
    have hne : ign ≠ [] := List.ne_nil_of_mem h
    simp [hr, hne, h]
  · have hr : r = ign ++ [g] := by simp [r, h]
    simp [hr]

theorem validated_idem (env : Env) (c : Cfg) (ver : Str) :
    validated env (validated env c ver) ver = validated env c ver := by
  unfold validated
  simp only [orDefault_idem, ite_nil_idem]
  congr 1
  · exact ignores_idem _ _ _
  · by_cases h : c.threads ≤ 0 <;> simp [h]
  · by_cases h : c.tabwidth < 1 <;> simp [h]
  · by_cases h : c.indent < 0 <;> simp [h]


/-- validating a validated configuration changes nothing -/
theorem validate_idem {env : Env} {c c' : Cfg} (h : validate env c = .ok c') : validate env c' = .ok c' := by
  obtain ⟨ver, hv, hg, hp1, hp3, hm, hd, rfl⟩ := validate_ok h
  have := validate_of (env := env) (c := validated env c ver) (ver := ver) ?_ ?_ ?_ ?_ ?_ ?_
  · rw [this, validated_idem]
  · show (if ver = [] then env.shortHash (orDefault (orDefault c.newBranch _) _) else some ver) = some ver
    rw [orDefault_idem]
    by_cases hver : ver = []
    · rw [if_pos hver]
      by_cases ha : c.appVersion = []
      · rw [if_pos ha] at hv; exact hv
      · rw [if_neg ha] at hv; injection hv with hv; exact absurd (hv ▸ hver) ha
    · rw [if_neg hver]
  · show granularityOK (orDefault (orDefault c.granularity _) _) = true
    rw [orDefault_idem]; exact hg
  · exact hp1
  · exact hp3
  · show List.all (if (if c.printerModes = [] then _ else c.printerModes) = [] then _
        else (if c.printerModes = [] then _ else c.printerModes)) modeOK = true
    rw [ite_nil_idem]; exact hm
  · show dataTypeOK (orDefault (orDefault c.dataType _) _) = true
    rw [orDefault_idem]; exact hd

theorem granularityOK_safe (s : Str) (h : granularityOK s = true) : safeStr s = true := by
  simp [granularityOK, Extracted.granularityParse] at h
  rcases h with e | e | e | e <;> (subst e; decide)

theorem dataTypeOK_safe (s : Str) (h : dataTypeOK s = true) : safeStr s = true := by
  simp [dataTypeOK, Extracted.dataTypeNames] at h
  rcases h with e | e <;> (subst e; decide)

/-- a validated configuration whose free-text strings are plain-scalar safe is in the class -/
theorem roundTripOK_of_validate {env : Env} {c c' : Cfg} (h : validate env c = .ok c') (hcpu : 0 ≤ env.numCPU)
    (hs : safeCfg c' = true) : RoundTripOK c' := by
  obtain ⟨ver, _, hg, hp1, _, _, hd, rfl⟩ := validate_ok h
  simp only [safeCfg, Bool.and_eq_true, List.all_eq_true] at hs
  obtain ⟨⟨⟨⟨⟨⟨⟨s1, s2⟩, s3⟩, s4⟩, s5⟩, s6⟩, s7⟩, s8⟩ := hs
  refine ⟨s1, s2, s3, s4, s5, s6, s7, s8, granularityOK_safe _ hg, dataTypeOK_safe _ hd, ?_, ?_, ?_, ?_⟩
  · show 0 ≤ c.diffPrecision
    omega
  · show 0 ≤ (if c.threads ≤ 0 then env.numCPU else c.threads)
    by_cases ht : c.threads ≤ 0 <;> simp [ht] <;> omega
  · show 0 ≤ (if c.tabwidth < 1 then Int.ofNat Extracted.defaultTabwidth else c.tabwidth)
    by_cases ht : c.tabwidth < 1 <;> simp [ht] <;> omega
  · show 0 ≤ (if c.indent < 0 then Int.ofNat Extracted.defaultIndent else c.indent)
    by_cases ht : c.indent < 0 <;> simp [ht] <;> omega

/-- an invalid value in one of the four checked fields -/
def Invalid (c : Cfg) : Prop :=
  granularityOK (orDefault c.granularity Extracted.defaultGranularity.toList) = false ∨
  c.diffPrecision < 1 ∨ c.diffPrecision > 3 ∨
  (if c.printerModes = [] then Extracted.defaultPrinterModes.map String.toList else c.printerModes).all modeOK = false ∨
  dataTypeOK (orDefault c.dataType Extracted.defaultDataType.toList) = false

theorem validate_invalid (env : Env) (c : Cfg) (hbad : Invalid c) : ∃ r, validate env c = .error r := by
  cases hv : validate env c with
  | error r => exact ⟨r, rfl⟩
  | ok c' =>
    obtain ⟨ver, _, hg, hp1, hp3, hm, hd, _⟩ := validate_ok hv
    rcases hbad with h | h | h | h | h
    · rw [hg] at h; cases h
    · omega
    · omega
    · rw [hm] at h; cases h
    · rw [hd] at h; cases h

end GoatSpec.Config
