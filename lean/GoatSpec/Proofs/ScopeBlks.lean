import GoatSpec.Proofs.Legal
/-! # Function scopes are brace pairs of blocks (removes the hypothesis `scopesOK` from
    `C01.marks_legal_func`: it follows from "the file scope sorts first")

* `sortBy` is a permutation;
* every function node collected by `funcNodes` (`FunctionScopesOfAST`) has its body among the
  blocks of `fileBlks` (mutual structural induction, `litsS` against `blksS`);
* hence, when the first scope of the sorted list is the file scope, every other scope is the
  brace pair of a block. -/
namespace GoatSpec

theorem insertBy_perm {α : Type} (key : α → Nat × Nat) (x : α) : ∀ l : List α, (insertBy key x l).Perm (x :: l) := by
  intro l
  induction l with
  | nil => exact List.Perm.refl _
  | cons y ys ih =>
    simp only [insertBy]
    split
    · exact List.Perm.refl _
    · exact (List.Perm.cons y ih).trans (List.Perm.swap x y ys)

theorem sortBy_perm {α : Type} (key : α → Nat × Nat) : ∀ l : List α, (sortBy key l).Perm l := by
  intro l
  induction l with
  | nil => exact List.Perm.refl _
  | cons x xs ih =>
    simp only [sortBy, List.foldr_cons]
    exact (insertBy_perm key x _).trans (List.Perm.cons x ih)

/-- some block of `blks` has the brace lines of the function node -/
def HasBlk (blks : List Blk) (n : FuncNode) : Prop := ∃ b ∈ blks, b.lo = n.lb ∧ b.hi = n.rb

theorem HasBlk.mono {A B : List Blk} {n : FuncNode} (h : HasBlk A n) (hs : ∀ b ∈ A, b ∈ B) : HasBlk B n := by
  obtain ⟨b, hb, h1⟩ := h; exact ⟨b, hs b hb, h1⟩
theorem HasBlk.inl {A B : List Blk} {n : FuncNode} (h : HasBlk A n) : HasBlk (A ++ B) n :=
  h.mono (fun _ hb => List.mem_append_left _ hb)
theorem HasBlk.inr {A B : List Blk} {n : FuncNode} (h : HasBlk B n) : HasBlk (A ++ B) n :=
  h.mono (fun _ hb => List.mem_append_right _ hb)
theorem HasBlk.tail {a : Blk} {B : List Blk} {n : FuncNode} (h : HasBlk B n) : HasBlk (a :: B) n :=
  h.mono (fun _ hb => List.mem_cons_of_mem _ hb)

/-- the `else` part of `blksS (.ifS …)` contains the blocks of the else list read as statements -/
theorem blksL_sub_else (hdr : List Nat) (els : List Stmt) : ∀ n, HasBlk (blksL els) n → HasBlk (elseBlks hdr els) n := by
  intro n h
  unfold elseBlks
  split
  · next bl be b =>
    simp only [blksL, blksS, List.append_nil] at h
    obtain ⟨x, hx, h1⟩ := h
    rcases List.mem_cons.mp hx with rfl | hx
    · exact ⟨_, List.mem_cons_self .., h1⟩
    · exact ⟨x, List.mem_cons_of_mem _ hx, h1⟩
  · exact h

mutual
theorem litsE_blk (e : Expr) : ∀ n ∈ litsE e, HasBlk (blksE e) n := by
  cases e with
  | funcLit pl el lb rb first body =>
    intro n hn
    simp only [litsE] at hn; simp only [blksE]
    rcases List.mem_cons.mp hn with rfl | hn
    · exact ⟨_, List.mem_cons_self .., rfl, rfl⟩
    · exact (litsL_blk body n hn).tail
  | call fn args =>
    intro n hn
    simp only [litsE] at hn; simp only [blksE]
    rcases List.mem_append.mp hn with hn | hn
    · exact (litsEs_blk fn n hn).inl
    · exact (litsEs_blk args n hn).inr
  | composite typ elts =>
    intro n hn
    simp only [litsE] at hn; simp only [blksE]
    rcases List.mem_append.mp hn with hn | hn
    · exact (litsEs_blk typ n hn).inl
    · exact (litsEs_blk elts n hn).inr
  | keyValue k v =>
    intro n hn
    simp only [litsE] at hn; simp only [blksE]
    rcases List.mem_append.mp hn with hn | hn
    · exact (litsEs_blk k n hn).inl
    · exact (litsEs_blk v n hn).inr
  | unary x => intro n hn; simp only [litsE] at hn; simp only [blksE]; exact litsEs_blk x n hn
  | structType fs => intro n hn; simp only [litsE] at hn; simp only [blksE]; exact litsEs_blk fs n hn
  | other cs => intro n hn; simp only [litsE] at hn; simp only [blksE]; exact litsEs_blk cs n hn
theorem litsEs_blk (es : List Expr) : ∀ n ∈ litsEs es, HasBlk (blksEs es) n := by
  cases es with
  | nil => intro n hn; simp [litsEs] at hn
  | cons e r =>
    intro n hn
    simp only [litsEs] at hn; simp only [blksEs]
    rcases List.mem_append.mp hn with hn | hn
    · exact (litsE_blk e n hn).inl
    · exact (litsEs_blk r n hn).inr
theorem litsS_blk (s : Stmt) : ∀ n ∈ litsS s, HasBlk (blksS s) n := by
  cases s with
  | simple k ln e pre ent post =>
    intro n hn
    simp only [litsS] at hn; simp only [blksS]
    rcases List.mem_append.mp hn with hn | hn
    · rcases List.mem_append.mp hn with hn | hn
      · exact ((litsEs_blk pre n hn).inl).inl
      · exact ((litsEs_blk ent n hn).inr).inl
    · exact (litsEs_blk post n hn).inr
  | block ln e body => intro n hn; simp only [litsS] at hn; simp only [blksS]; exact (litsL_blk body n hn).tail
  | labeled ln e inner => intro n hn; simp only [litsS] at hn; simp only [blksS]; exact litsS_blk inner n hn
  | ifS ln e init ir cr cond lb rb body els =>
    intro n hn
    simp only [litsS] at hn
    rw [blksS_if]
    rcases List.mem_append.mp hn with hn | hn
    · rcases List.mem_append.mp hn with hn | hn
      · rcases List.mem_append.mp hn with hn | hn
        · exact HasBlk.inl (HasBlk.inl (HasBlk.inl (litsL_blk init n hn)))
        · exact HasBlk.inl (HasBlk.inl (HasBlk.inr (litsEs_blk cond n hn)))
      · exact HasBlk.inl (HasBlk.inr (litsL_blk body n hn).tail)
    · exact HasBlk.inr (blksL_sub_else _ els n (litsL_blk els n hn))
  | forS ln e init ir cr pr cond post lb rb body =>
    intro n hn
    simp only [litsS] at hn; simp only [blksS]
    rcases List.mem_append.mp hn with hn | hn
    · rcases List.mem_append.mp hn with hn | hn
      · rcases List.mem_append.mp hn with hn | hn
        · exact HasBlk.inl (HasBlk.inl (HasBlk.inl (litsL_blk init n hn)))
        · exact HasBlk.inl (HasBlk.inl (HasBlk.inr (litsEs_blk cond n hn)))
      · exact HasBlk.inl (HasBlk.inr (litsL_blk post n hn))
    · exact HasBlk.inr (litsL_blk body n hn).tail
  | rangeS ln e kr vr xr kvx lb rb body =>
    intro n hn
    simp only [litsS] at hn; simp only [blksS]
    rcases List.mem_append.mp hn with hn | hn
    · exact HasBlk.inl (litsEs_blk kvx n hn)
    · exact HasBlk.inr (litsL_blk body n hn).tail
  | switchS ln e init ir tr tag lb rb cl =>
    intro n hn
    simp only [litsS] at hn; simp only [blksS]
    rcases List.mem_append.mp hn with hn | hn
    · rcases List.mem_append.mp hn with hn | hn
      · exact HasBlk.inl (HasBlk.inl (litsL_blk init n hn))
      · exact HasBlk.inl (HasBlk.inr (litsEs_blk tag n hn))
    · exact HasBlk.inr (litsClauses_blk _ cl _ n hn)
  | typeSwitchS ln e init ir ar asg lb rb cl =>
    intro n hn
    simp only [litsS] at hn; simp only [blksS]
    rcases List.mem_append.mp hn with hn | hn
    · rcases List.mem_append.mp hn with hn | hn
      · exact HasBlk.inl (HasBlk.inl (litsL_blk init n hn))
      · exact HasBlk.inl (HasBlk.inr (litsL_blk asg n hn))
    · exact HasBlk.inr (litsClauses_blk _ cl _ n hn)
  | selectS ln e lb rb cl =>
    intro n hn
    simp only [litsS] at hn; simp only [blksS]
    exact litsClauses_blk _ cl _ n hn
  | caseC ln e lr list colon body =>
    intro n hn
    simp only [litsS] at hn; simp only [blksS]
    rcases List.mem_append.mp hn with hn | hn
    · exact HasBlk.inl (litsEs_blk list n hn)
    · exact HasBlk.inr (litsL_blk body n hn)
  | commC ln e cr comm colon body =>
    intro n hn
    simp only [litsS] at hn; simp only [blksS]
    rcases List.mem_append.mp hn with hn | hn
    · exact HasBlk.inl (litsL_blk comm n hn)
    · exact HasBlk.inr (litsL_blk body n hn)
theorem litsClauses_blk (hdr : List Nat) (cl : List Stmt) (his : List Nat) :
    ∀ n ∈ litsL cl, HasBlk (blksClauses hdr cl his) n := by
  cases cl with
  | nil => intro n hn; simp [litsL] at hn
  | cons c r =>
    intro n hn
    simp only [litsL] at hn
    rcases List.mem_append.mp hn with hn | hn
    · cases c with
      | caseC ln e lr list colon body =>
        simp only [litsS] at hn; simp only [blksClauses]
        rcases List.mem_append.mp hn with hn | hn
        · exact HasBlk.inl (HasBlk.inl (litsEs_blk list n hn))
        · exact HasBlk.inl (HasBlk.inr (litsL_blk body n hn).tail)
      | commC ln e cr comm colon body =>
        simp only [litsS] at hn; simp only [blksClauses]
        rcases List.mem_append.mp hn with hn | hn
        · exact HasBlk.inl (HasBlk.inl (litsL_blk comm n hn))
        · exact HasBlk.inl (HasBlk.inr (litsL_blk body n hn).tail)
      | simple k ln e pre ent post => simp only [blksClauses]; exact HasBlk.inl (litsS_blk _ n hn)
      | block ln e body => simp only [blksClauses]; exact HasBlk.inl (litsS_blk _ n hn)
      | labeled ln e inner => simp only [blksClauses]; exact HasBlk.inl (litsS_blk _ n hn)
      | ifS ln e init ir cr cond lb rb body els => simp only [blksClauses]; exact HasBlk.inl (litsS_blk _ n hn)
      | forS ln e init ir cr pr cond post lb rb body => simp only [blksClauses]; exact HasBlk.inl (litsS_blk _ n hn)
      | rangeS ln e kr vr xr kvx lb rb body => simp only [blksClauses]; exact HasBlk.inl (litsS_blk _ n hn)
      | switchS ln e init ir tr tag lb rb cl => simp only [blksClauses]; exact HasBlk.inl (litsS_blk _ n hn)
      | typeSwitchS ln e init ir ar asg lb rb cl => simp only [blksClauses]; exact HasBlk.inl (litsS_blk _ n hn)
      | selectS ln e lb rb cl => simp only [blksClauses]; exact HasBlk.inl (litsS_blk _ n hn)
    · have := litsClauses_blk hdr r his.tail n hn
      cases c <;> (simp only [blksClauses]; exact HasBlk.inr this)
theorem litsL_blk (ss : List Stmt) : ∀ n ∈ litsL ss, HasBlk (blksL ss) n := by
  cases ss with
  | nil => intro n hn; simp [litsL] at hn
  | cons s r =>
    intro n hn
    simp only [litsL] at hn; simp only [blksL]
    rcases List.mem_append.mp hn with hn | hn
    · exact (litsS_blk s n hn).inl
    · exact (litsL_blk r n hn).inr
end

/-- every function node of the file has its body among the blocks of the file -/
theorem funcNodes_blk : ∀ (ds : List Decl) (ns : List FuncNode), funcNodes ds = some ns →
    ∀ n ∈ ns, HasBlk (ds.flatMap declBlks) n := by
  intro ds
  induction ds with
  | nil => intro ns h n hn; simp [funcNodes] at h; subst h; cases hn
  | cons d r ih =>
    intro ns h n hn
    simp only [List.flatMap_cons]
    cases d with
    | funcDecl body =>
      cases body with
      | none =>
        simp only [funcNodes] at h
        exact (ih ns h n hn).inr
      | some t =>
        obtain ⟨lb, rb, first, stmts⟩ := t
        simp only [funcNodes, Option.map_eq_some_iff] at h
        obtain ⟨rs, hrs, rfl⟩ := h
        rcases List.mem_cons.mp hn with rfl | hn
        · exact HasBlk.inl ⟨_, by simp only [declBlks]; exact List.mem_cons_self .., rfl, rfl⟩
        · rcases List.mem_append.mp hn with hn | hn
          · exact HasBlk.inl (by simp only [declBlks]; exact (litsL_blk stmts n hn).tail)
          · exact (ih rs hrs n hn).inr
    | genDecl vs =>
      simp only [funcNodes, Option.map_eq_some_iff] at h
      obtain ⟨rs, hrs, rfl⟩ := h
      rcases List.mem_append.mp hn with hn | hn
      · exact HasBlk.inl (by simp only [declBlks]; exact litsEs_blk vs n hn)
      · exact (ih rs hrs n hn).inr

/-- the file scope is the first function scope (the package clause precedes every function) -/
def headIsFile (f : File) : Bool :=
  match functionScopes f with
  | some (p :: _) => p == (f.pkgLine, f.endLine)
  | _ => false

/-- **when the file scope sorts first, every other function scope is the brace pair of a block** -/
theorem scopesOK_of_headIsFile (f : File) (h : headIsFile f = true) : scopesOK f = true := by
  unfold headIsFile at h
  unfold scopesOK
  cases hfs : functionScopes f with
  | none => simp [hfs] at h
  | some fs =>
    simp only [hfs] at h ⊢
    cases fs with
    | nil => simp at h
    | cons p t =>
      simp only [beq_iff_eq] at h
      simp only [functionScopes, Option.map_eq_some_iff] at hfs
      obtain ⟨ns, hns, hsort⟩ := hfs
      have hperm := sortBy_perm (fun (x : Nat × Nat) => x) ((f.pkgLine, f.endLine) :: ns.map (fun n => (n.lb, n.rb)))
      have hsort' : sortBy (fun (x : Nat × Nat) => x) ((f.pkgLine, f.endLine) :: ns.map (fun n => (n.lb, n.rb))) = p :: t := hsort
      rw [hsort', h] at hperm
      have ht : t.Perm (ns.map (fun n => (n.lb, n.rb))) := List.Perm.cons_inv hperm
      simp only [List.drop_one, List.tail_cons, List.all_eq_true, List.any_eq_true, Bool.and_eq_true, beq_iff_eq]
      intro q hq
      have hq' : q ∈ ns.map (fun n => (n.lb, n.rb)) := ht.mem_iff.mp hq
      obtain ⟨n, hn, rfl⟩ := List.mem_map.mp hq'
      obtain ⟨b, hb, h1, h2⟩ := funcNodes_blk f.decls ns hns n hn
      exact ⟨b, hb, h1, h2⟩

end GoatSpec
