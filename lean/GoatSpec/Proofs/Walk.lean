import GoatSpec.Proofs.Mark
/-! # The statement walk reaches every statement in the positions it enters (helper for C03),
    and the control pass forces nothing when nothing changed (helper for C09). -/
namespace GoatSpec

/-! ## `Walked l …`: a marking statement with first line `l` is visited by `processStatements`
    started on the list / statement / expression -/
mutual
inductive WalkedE : Nat → Expr → Prop
  /-- a multi-line function literal is entered -/
  | lit {l pl el lb rb p body} : pl ≠ el → WalkedL l body → WalkedE l (.funcLit pl el lb rb (some p) body)
  | callF {l fn args} : WalkedEs l fn → WalkedE l (.call fn args)
  | callA {l fn args} : WalkedEs l args → WalkedE l (.call fn args)
  | comp {l typ elts} : WalkedEs l elts → WalkedE l (.composite typ elts)
  | kv {l k v} : WalkedEs l v → WalkedE l (.keyValue k v)
  | un {l x} : WalkedEs l x → WalkedE l (.unary x)
  | st {l fs} : WalkedEs l fs → WalkedE l (.structType fs)
inductive WalkedEs : Nat → List Expr → Prop
  | head {l e es} : WalkedE l e → WalkedEs l (e :: es)
  | tail {l e es} : WalkedEs l es → WalkedEs l (e :: es)
inductive WalkedS : Nat → Stmt → Prop
  | mark {l e pre ent post} : WalkedS l (.simple .mark l e pre ent post)
  | markE {l l' e pre ent post} : WalkedEs l ent → WalkedS l (.simple .mark l' e pre ent post)
  | decl {l e n pre ent post} : 0 < n → WalkedS l (.simple (.decl n) l e pre ent post)
  | blk {l e body} : WalkedS l (.block l e body)
  | blkB {l l' e body} : WalkedL l body → WalkedS l (.block l' e body)
  | lab {l l' e inner} : WalkedS l inner → WalkedS l (.labeled l' e inner)
  | ifB {l l' e init ir cr cond lb rb body els} : WalkedL l body → WalkedS l (.ifS l' e init ir cr cond lb rb body els)
  | ifElseIf {l l' e init ir cr cond lb rb body s rest} : (∀ a b c, s ≠ .block a b c) → WalkedS l s →
      WalkedS l (.ifS l' e init ir cr cond lb rb body (s :: rest))
  | ifElse {l l' e init ir cr cond lb rb body a b c rest} : WalkedL l c →
      WalkedS l (.ifS l' e init ir cr cond lb rb body (.block a b c :: rest))
  | forB {l l' e init ir cr pr cond post lb rb body} : WalkedL l body → WalkedS l (.forS l' e init ir cr pr cond post lb rb body)
  | rangeB {l l' e kr vr xr kvx lb rb body} : WalkedL l body → WalkedS l (.rangeS l' e kr vr xr kvx lb rb body)
  | switchB {l l' e init ir tr tag lb rb cl} : WalkedL l cl → WalkedS l (.switchS l' e init ir tr tag lb rb cl)
  | tswitchB {l l' e init ir ar asg lb rb cl} : WalkedL l cl → WalkedS l (.typeSwitchS l' e init ir ar asg lb rb cl)
  | selectB {l l' e lb rb cl} : WalkedL l cl → WalkedS l (.selectS l' e lb rb cl)
  | caseB {l l' e lr list colon body} : WalkedL l body → WalkedS l (.caseC l' e lr list colon body)
  | commB {l l' e cr comm colon body} : WalkedL l body → WalkedS l (.commC l' e cr comm colon body)
inductive WalkedL : Nat → List Stmt → Prop
  | head {l s ss} : WalkedS l s → WalkedL l (s :: ss)
  | tail {l s ss} : WalkedL l ss → WalkedL l (s :: ss)
end

theorem evElse_nonblock (s : Stmt) (rest : List Stmt) (h : ∀ a b c, s ≠ .block a b c) :
    evElse (s :: rest) = evS s := by
  cases s with
  | block a b c => exact absurd rfl (h a b c)
  | simple k l e pre ent post => simp only [evElse]
  | labeled l e inner => simp only [evElse]
  | ifS l e init ir cr cond lb rb body els => simp only [evElse]
  | forS l e init ir cr pr cond post lb rb body => simp only [evElse]
  | rangeS l e kr vr xr kvx lb rb body => simp only [evElse]
  | switchS l e init ir tr tag lb rb cl => simp only [evElse]
  | typeSwitchS l e init ir ar asg lb rb cl => simp only [evElse]
  | selectS l e lb rb cl => simp only [evElse]
  | caseC l e lr list colon body => simp only [evElse]
  | commC l e cr comm colon body => simp only [evElse]

mutual
theorem walkedE_ev {l e} (h : WalkedE l e) : Ev.check l ∈ evE e := by
  cases h with
  | lit hne hb =>
    simp only [evE]
    split
    · next hh => exact absurd (by simpa using hh) hne
    · exact walkedL_ev hb
  | callF h => simp only [evE]; exact List.mem_append.mpr (Or.inl (walkedEs_ev h))
  | callA h => simp only [evE]; exact List.mem_append.mpr (Or.inr (walkedEs_ev h))
  | comp h => simp only [evE]; exact walkedEs_ev h
  | kv h => simp only [evE]; exact walkedEs_ev h
  | un h => simp only [evE]; exact walkedEs_ev h
  | st h => simp only [evE]; exact walkedEs_ev h
theorem walkedEs_ev {l es} (h : WalkedEs l es) : Ev.check l ∈ evEs es := by
  cases h with
  | head h => simp only [evEs]; exact List.mem_append.mpr (Or.inl (walkedE_ev h))
  | tail h => simp only [evEs]; exact List.mem_append.mpr (Or.inr (walkedEs_ev h))
theorem walkedS_ev {l s} (h : WalkedS l s) : Ev.check l ∈ evS s := by
  cases h with
  | mark => simp [evS]
  | markE h => simp only [evS]; exact List.mem_cons_of_mem _ (walkedEs_ev h)
  | decl hn =>
    simp only [evS]
    exact List.mem_replicate.mpr ⟨by omega, rfl⟩
  | blk => simp [evS]
  | blkB h => simp only [evS]; exact List.mem_cons_of_mem _ (walkedL_ev h)
  | lab h => simp only [evS]; exact walkedS_ev h
  | ifB h => simp only [evS]; exact List.mem_append.mpr (Or.inl (walkedL_ev h))
  | ifElseIf hnb h =>
    simp only [evS]; apply List.mem_append.mpr; right
    rw [evElse_nonblock _ _ hnb]
    exact walkedS_ev h
  | ifElse h =>
    simp only [evS]; apply List.mem_append.mpr; right
    simp only [evElse]; exact walkedL_ev h
  | forB h => simp only [evS]; exact walkedL_ev h
  | rangeB h => simp only [evS]; exact walkedL_ev h
  | switchB h => simp only [evS]; exact walkedL_ev h
  | tswitchB h => simp only [evS]; exact walkedL_ev h
  | selectB h => simp only [evS]; exact walkedL_ev h
  | caseB h => simp only [evS]; exact walkedL_ev h
  | commB h => simp only [evS]; exact walkedL_ev h
theorem walkedL_ev {l ss} (h : WalkedL l ss) : Ev.check l ∈ evL ss := by
  cases h with
  | head h => simp only [evL]; exact List.mem_append.mpr (Or.inl (walkedS_ev h))
  | tail h => simp only [evL]; exact List.mem_append.mpr (Or.inr (walkedL_ev h))
end

/-! ## nothing changed ⇒ the control pass forces nothing -/

theorem rngChanged_false (r : ORng) : rngChanged (fun _ => false) r = false := by
  cases r with
  | none => rfl
  | some p => simp [rngChanged]

mutual
theorem ctlE_false (e : Expr) : ctlE (fun _ => false) e = [] := by
  cases e with
  | funcLit pl el lb rb first body => simp only [ctlE]; exact ctlL_false body
  | call fn args => simp only [ctlE, ctlEs_false fn, ctlEs_false args, List.append_nil]
  | composite typ elts => simp only [ctlE, ctlEs_false typ, ctlEs_false elts, List.append_nil]
  | keyValue k v => simp only [ctlE, ctlEs_false k, ctlEs_false v, List.append_nil]
  | unary x => simp only [ctlE, ctlEs_false x]
  | structType fs => simp only [ctlE, ctlEs_false fs]
  | other cs => simp only [ctlE, ctlEs_false cs]
theorem ctlEs_false (es : List Expr) : ctlEs (fun _ => false) es = [] := by
  cases es with
  | nil => rfl
  | cons e r => simp only [ctlEs, ctlE_false e, ctlEs_false r, List.append_nil]
theorem ctlS_false (s : Stmt) : ctlS (fun _ => false) s = [] := by
  cases s with
  | simple k l e pre ent post => simp only [ctlS, ctlEs_false pre, ctlEs_false ent, ctlEs_false post, List.append_nil]
  | block l e body => simp only [ctlS]; exact ctlL_false body
  | labeled l e inner => simp only [ctlS]; exact ctlS_false inner
  | ifS l e init ir cr cond lb rb body els =>
    simp [ctlS, rngChanged_false, ctlL_false init, ctlEs_false cond, ctlL_false body, ctlL_false els]
  | forS l e init ir cr pr cond post lb rb body =>
    simp [ctlS, rngChanged_false, ctlL_false init, ctlEs_false cond, ctlL_false post, ctlL_false body]
  | rangeS l e kr vr xr kvx lb rb body =>
    simp [ctlS, rngChanged_false, ctlEs_false kvx, ctlL_false body]
  | switchS l e init ir tr tag lb rb cl =>
    simp [ctlS, rngChanged_false, ctlL_false init, ctlEs_false tag, ctlL_false cl]
  | typeSwitchS l e init ir ar asg lb rb cl =>
    simp [ctlS, rngChanged_false, ctlL_false init, ctlL_false asg, ctlL_false cl]
  | selectS l e lb rb cl => simp only [ctlS]; exact ctlL_false cl
  | caseC l e lr list colon body =>
    simp [ctlS, rngChanged_false, ctlEs_false list, ctlL_false body]
  | commC l e cr comm colon body =>
    simp [ctlS, rngChanged_false, ctlL_false comm, ctlL_false body]
theorem ctlL_false (ss : List Stmt) : ctlL (fun _ => false) ss = [] := by
  cases ss with
  | nil => rfl
  | cons s r => simp only [ctlL, ctlS_false s, ctlL_false r, List.append_nil]
end

def Ev.isForce : Ev → Bool
  | .force _ => true
  | _ => false

mutual
theorem evE_noForce (e : Expr) : ∀ ev ∈ evE e, ev.isForce = false := by
  cases e with
  | funcLit pl el lb rb first body =>
    intro ev h; simp only [evE] at h
    split at h
    · cases h
    · split at h
      · simp at h; subst h; rfl
      · exact evL_noForce body ev h
  | call fn args =>
    intro ev h; simp only [evE] at h
    rcases List.mem_append.mp h with h | h
    · exact evEs_noForce fn ev h
    · exact evEs_noForce args ev h
  | composite typ elts => intro ev h; simp only [evE] at h; exact evEs_noForce elts ev h
  | keyValue k v => intro ev h; simp only [evE] at h; exact evEs_noForce v ev h
  | unary x => intro ev h; simp only [evE] at h; exact evEs_noForce x ev h
  | structType fs => intro ev h; simp only [evE] at h; exact evEs_noForce fs ev h
  | other cs => intro ev h; simp [evE] at h
theorem evEs_noForce (es : List Expr) : ∀ ev ∈ evEs es, ev.isForce = false := by
  cases es with
  | nil => intro ev h; simp [evEs] at h
  | cons e r =>
    intro ev h; simp only [evEs] at h
    rcases List.mem_append.mp h with h | h
    · exact evE_noForce e ev h
    · exact evEs_noForce r ev h
theorem evS_noForce (s : Stmt) : ∀ ev ∈ evS s, ev.isForce = false := by
  cases s with
  | simple k l e pre ent post =>
    intro ev h
    cases k with
    | mark =>
      simp only [evS] at h
      rcases List.mem_cons.mp h with h | h
      · subst h; rfl
      · exact evEs_noForce ent ev h
    | noMark => simp [evS] at h
    | decl n => simp only [evS] at h; rw [(List.mem_replicate.mp h).2]; rfl
  | block l e body =>
    intro ev h; simp only [evS] at h
    rcases List.mem_cons.mp h with h | h
    · subst h; rfl
    · exact evL_noForce body ev h
  | labeled l e inner => intro ev h; simp only [evS] at h; exact evS_noForce inner ev h
  | ifS l e init ir cr cond lb rb body els =>
    intro ev h; simp only [evS] at h
    rcases List.mem_append.mp h with h | h
    · exact evL_noForce body ev h
    · exact evElse_noForce els ev h
  | forS l e init ir cr pr cond post lb rb body => intro ev h; simp only [evS] at h; exact evL_noForce body ev h
  | rangeS l e kr vr xr kvx lb rb body => intro ev h; simp only [evS] at h; exact evL_noForce body ev h
  | switchS l e init ir tr tag lb rb cl => intro ev h; simp only [evS] at h; exact evL_noForce cl ev h
  | typeSwitchS l e init ir ar asg lb rb cl => intro ev h; simp only [evS] at h; exact evL_noForce cl ev h
  | selectS l e lb rb cl => intro ev h; simp only [evS] at h; exact evL_noForce cl ev h
  | caseC l e lr list colon body => intro ev h; simp only [evS] at h; exact evL_noForce body ev h
  | commC l e cr comm colon body => intro ev h; simp only [evS] at h; exact evL_noForce body ev h
theorem evElse_noForce (els : List Stmt) : ∀ ev ∈ evElse els, ev.isForce = false := by
  cases els with
  | nil => intro ev h; simp [evElse] at h
  | cons s r =>
    intro ev h
    cases s with
    | block a b c => simp only [evElse] at h; exact evL_noForce c ev h
    | simple k l e pre ent post => simp only [evElse] at h; exact evS_noForce _ ev h
    | labeled l e inner => simp only [evElse] at h; exact evS_noForce _ ev h
    | ifS l e init ir cr cond lb rb body els => simp only [evElse] at h; exact evS_noForce _ ev h
    | forS l e init ir cr pr cond post lb rb body => simp only [evElse] at h; exact evS_noForce _ ev h
    | rangeS l e kr vr xr kvx lb rb body => simp only [evElse] at h; exact evS_noForce _ ev h
    | switchS l e init ir tr tag lb rb cl => simp only [evElse] at h; exact evS_noForce _ ev h
    | typeSwitchS l e init ir ar asg lb rb cl => simp only [evElse] at h; exact evS_noForce _ ev h
    | selectS l e lb rb cl => simp only [evElse] at h; exact evS_noForce _ ev h
    | caseC l e lr list colon body => simp only [evElse] at h; exact evS_noForce _ ev h
    | commC l e cr comm colon body => simp only [evElse] at h; exact evS_noForce _ ev h
theorem evL_noForce (ss : List Stmt) : ∀ ev ∈ evL ss, ev.isForce = false := by
  cases ss with
  | nil => intro ev h; simp [evL] at h
  | cons s r =>
    intro ev h; simp only [evL] at h
    rcases List.mem_append.mp h with h | h
    · exact evS_noForce s ev h
    · exact evL_noForce r ev h
end

end GoatSpec
