import GoatSpec.Diff
/-! # helper lemmas for C04 / C17 (chunk walk, blame walk, compaction, sort) -/
namespace GoatSpec.Diff

/-! ## chunk lists whose chunks are whole lines -/

/-- a chunk with its lines (every line newline-terminated) -/
abbrev LChunk (α : Type) := Kind × List α

/-- what `getLineChange` sees of it -/
def num {α : Type} (cs : List (LChunk α)) : List NChunk := cs.map (fun c => (c.1, c.2.length))

def sel {α : Type} (keep : Kind → Bool) (cs : List (LChunk α)) : List α :=
  cs.flatMap (fun c => if keep c.1 then c.2 else [])

/-- the old file: all chunks but the Add ones -/
def oldOf {α : Type} (cs : List (LChunk α)) : List α := sel (fun k => k != .add) cs
/-- the new file: all chunks but the Delete ones -/
def newOf {α : Type} (cs : List (LChunk α)) : List α := sel (fun k => k != .del) cs
def eqOf {α : Type} (cs : List (LChunk α)) : List α := sel (fun k => k == .eq) cs
def addOf {α : Type} (cs : List (LChunk α)) : List α := sel (fun k => k == .add) cs

section sel
variable {α : Type}

@[simp] theorem sel_nil (keep : Kind → Bool) : sel keep ([] : List (LChunk α)) = [] := rfl
@[simp] theorem sel_cons (keep : Kind → Bool) (k : Kind) (ls : List α) (r : List (LChunk α)) :
    sel keep ((k, ls) :: r) = (if keep k then ls else []) ++ sel keep r := by
  simp [sel]
theorem sel_append (keep : Kind → Bool) (a b : List (LChunk α)) : sel keep (a ++ b) = sel keep a ++ sel keep b := by
  simp [sel]

theorem sel_sublist (k1 k2 : Kind → Bool) (h : ∀ k, k1 k = true → k2 k = true) (cs : List (LChunk α)) :
    (sel k1 cs).Sublist (sel k2 cs) := by
  induction cs with
  | nil => simp
  | cons c r ih =>
    obtain ⟨k, ls⟩ := c
    simp only [sel_cons]
    cases h1 : k1 k with
    | true => simp only [h k h1, if_true]; exact List.Sublist.append_left ih ls
    | false =>
      simp only [Bool.false_eq_true, if_false, List.nil_append]
      exact List.sublist_append_of_sublist_right ih

theorem eqOf_sublist_old (cs : List (LChunk α)) : (eqOf cs).Sublist (oldOf cs) :=
  sel_sublist _ _ (by intro k; cases k <;> simp) cs
theorem eqOf_sublist_new (cs : List (LChunk α)) : (eqOf cs).Sublist (newOf cs) :=
  sel_sublist _ _ (by intro k; cases k <;> simp) cs
theorem addOf_sublist_new (cs : List (LChunk α)) : (addOf cs).Sublist (newOf cs) :=
  sel_sublist _ _ (by intro k; cases k <;> simp) cs

theorem newOf_length (cs : List (LChunk α)) : (newOf cs).length = (eqOf cs).length + (addOf cs).length := by
  induction cs with
  | nil => rfl
  | cons c r ih =>
    obtain ⟨k, ls⟩ := c
    simp only [newOf, eqOf, addOf] at ih ⊢
    cases k <;> simp [ih] <;> omega

theorem newOf_perm (cs : List (LChunk α)) : (newOf cs).Perm (eqOf cs ++ addOf cs) := by
  induction cs with
  | nil => simp [newOf, eqOf, addOf]
  | cons c r ih =>
    obtain ⟨k, ls⟩ := c
    simp only [newOf, eqOf, addOf] at ih ⊢
    cases k
    · simp only [sel_cons]; simpa using List.Perm.append_left ls ih
    · simp only [sel_cons]
      simp only [bne_self_eq_false, beq_self_eq_true, if_true, Bool.not_eq_true]
      have h1 : ((Kind.add != Kind.del) = true) := by decide
      have h2 : ((Kind.add == Kind.eq) = false) := by decide
      simp only [h1, h2, if_true, Bool.false_eq_true, if_false, List.nil_append]
      -- ls ++ new ~ eq ++ (ls ++ add)
      refine (List.Perm.append_left ls ih).trans ?_
      rw [← List.append_assoc, ← List.append_assoc]
      exact List.Perm.append_right _ List.perm_append_comm
    · simpa using ih
end sel

/-! ## ranges -/

theorem covered_cons (r0 : Range) (rs : List Range) (i : Nat) :
    covered (r0 :: rs) i = ((decide (r0.1 ≤ i) && decide (i < r0.1 + r0.2)) || covered rs i) := by
  simp [covered]

theorem covered_cons_below (r0 : Range) (rs : List Range) (j : Nat) (h : r0.1 + r0.2 ≤ j) :
    covered (r0 :: rs) j = covered rs j := by
  rw [covered_cons]
  have : decide (j < r0.1 + r0.2) = false := by simp; omega
  simp [this]

theorem covered_false_of_above (rs : List Range) (i : Nat) (h : ∀ r ∈ rs, i < r.1) : covered rs i = false := by
  induction rs with
  | nil => rfl
  | cons r rs ih =>
    rw [covered_cons, ih (fun r' hr' => h r' (by simp [hr']))]
    have := h r (by simp)
    have : decide (r.1 ≤ i) = false := by simp; omega
    simp [this]

section lines
variable {α : Type}

theorem unreportedFrom_cons_below (r0 : Range) (rs : List Range) (j : Nat) (l : List α) (h : r0.1 + r0.2 ≤ j) :
    unreportedFrom (r0 :: rs) j l = unreportedFrom rs j l := by
  induction l generalizing j with
  | nil => rfl
  | cons x xs ih =>
    simp only [unreportedFrom, covered_cons_below r0 rs j h, ih (j + 1) (by omega)]

theorem reportedFrom_cons_below (r0 : Range) (rs : List Range) (j : Nat) (l : List α) (h : r0.1 + r0.2 ≤ j) :
    reportedFrom (r0 :: rs) j l = reportedFrom rs j l := by
  induction l generalizing j with
  | nil => rfl
  | cons x xs ih =>
    simp only [reportedFrom, covered_cons_below r0 rs j h, ih (j + 1) (by omega)]

/-- lines below every range are all unreported -/
theorem unreportedFrom_above (rs : List Range) (j : Nat) (ls rest : List α) (h : ∀ r ∈ rs, j + ls.length ≤ r.1) :
    unreportedFrom rs j (ls ++ rest) = ls ++ unreportedFrom rs (j + ls.length) rest := by
  induction ls generalizing j with
  | nil => simp
  | cons x xs ih =>
    have hc : covered rs j = false := covered_false_of_above rs j (fun r hr => by have := h r hr; simp at this; omega)
    simp only [List.cons_append, unreportedFrom, hc, Bool.false_eq_true, if_false, List.length_cons]
    rw [ih (j + 1) (fun r hr => by have := h r hr; simp at this; omega)]
    rw [show j + 1 + xs.length = j + (xs.length + 1) by omega]

theorem reportedFrom_above (rs : List Range) (j : Nat) (ls rest : List α) (h : ∀ r ∈ rs, j + ls.length ≤ r.1) :
    reportedFrom rs j (ls ++ rest) = reportedFrom rs (j + ls.length) rest := by
  induction ls generalizing j with
  | nil => simp
  | cons x xs ih =>
    have hc : covered rs j = false := covered_false_of_above rs j (fun r hr => by have := h r hr; simp at this; omega)
    simp only [List.cons_append, reportedFrom, hc, Bool.false_eq_true, if_false, List.length_cons]
    rw [ih (j + 1) (fun r hr => by have := h r hr; simp at this; omega)]
    rw [show j + 1 + xs.length = j + (xs.length + 1) by omega]

/-- lines inside the first range are all reported -/
theorem unreportedFrom_inside (s n : Nat) (rs : List Range) (j : Nat) (ls rest : List α)
    (h1 : s ≤ j) (h2 : j + ls.length ≤ s + n) :
    unreportedFrom ((s, n) :: rs) j (ls ++ rest) = unreportedFrom ((s, n) :: rs) (j + ls.length) rest := by
  induction ls generalizing j with
  | nil => simp
  | cons x xs ih =>
    simp only [List.length_cons] at h2
    have hc : covered ((s, n) :: rs) j = true := by
      rw [covered_cons]
      have a : decide (s ≤ j) = true := decide_eq_true (by omega)
      have b : decide (j < s + n) = true := decide_eq_true (by omega)
      simp [a, b]
    simp only [List.cons_append, unreportedFrom, hc, if_true, List.length_cons]
    rw [ih (j + 1) (by omega) (by omega)]
    rw [show j + 1 + xs.length = j + (xs.length + 1) by omega]

theorem reportedFrom_inside (s n : Nat) (rs : List Range) (j : Nat) (ls rest : List α)
    (h1 : s ≤ j) (h2 : j + ls.length ≤ s + n) :
    reportedFrom ((s, n) :: rs) j (ls ++ rest) = ls ++ reportedFrom ((s, n) :: rs) (j + ls.length) rest := by
  induction ls generalizing j with
  | nil => simp
  | cons x xs ih =>
    simp only [List.length_cons] at h2
    have hc : covered ((s, n) :: rs) j = true := by
      rw [covered_cons]
      have a : decide (s ≤ j) = true := decide_eq_true (by omega)
      have b : decide (j < s + n) = true := decide_eq_true (by omega)
      simp [a, b]
    simp only [List.cons_append, reportedFrom, hc, if_true, List.length_cons]
    rw [ih (j + 1) (by omega) (by omega)]
    rw [show j + 1 + xs.length = j + (xs.length + 1) by omega]
end lines

/-! ## the chunk walk -/

/-- every range the walk emits starts above the current counter -/
theorem walk_ge (nl : Nat) (cs : List NChunk) : ∀ r ∈ walk nl cs, nl + 1 ≤ r.1 := by
  induction cs generalizing nl with
  | nil => intro r hr; cases hr
  | cons c cs ih =>
    obtain ⟨k, n⟩ := c
    intro r hr
    cases k with
    | eq => simp only [walk] at hr; have := ih _ r hr; omega
    | add =>
      simp only [walk, List.mem_cons] at hr
      rcases hr with rfl | hr
      · simp
      · have := ih _ r hr; omega
    | del => simp only [walk] at hr; exact ih _ r hr

/-- number of lines the chunks put into the new file -/
def newLen : List NChunk → Nat
  | [] => 0
  | (.del, _) :: r => newLen r
  | (_, n) :: r => n + newLen r

theorem walk_wf (lo nl hi : Nat) (cs : List NChunk) (h1 : lo ≤ nl + 1) (h2 : nl + newLen cs ≤ hi) :
    rangesWF lo hi (walk nl cs) = true := by
  induction cs generalizing lo nl with
  | nil => rfl
  | cons c cs ih =>
    obtain ⟨k, n⟩ := c
    cases k with
    | eq => simp only [walk]; simp only [newLen] at h2; exact ih lo (nl + n) (by omega) (by omega)
    | add =>
      simp only [newLen] at h2
      simp only [walk, rangesWF, Bool.and_eq_true, decide_eq_true_eq]
      exact ⟨⟨by omega, by omega⟩, ih (nl + 1 + n) (nl + n) (by omega) (by omega)⟩
    | del => simp only [walk]; simp only [newLen] at h2; exact ih lo nl h1 h2

theorem newLen_num {α : Type} (cs : List (LChunk α)) : newLen (num cs) = (newOf cs).length := by
  induction cs with
  | nil => rfl
  | cons c r ih =>
    obtain ⟨k, ls⟩ := c
    simp only [num, newOf] at ih ⊢
    cases k <;> simp [newLen, ih]

theorem unreported_walk {α : Type} (cs : List (LChunk α)) (nl : Nat) :
    unreportedFrom (walk nl (num cs)) (nl + 1) (newOf cs) = eqOf cs := by
  induction cs generalizing nl with
  | nil => rfl
  | cons c r ih =>
    obtain ⟨k, ls⟩ := c
    cases k with
    | eq =>
      have hw : walk nl (num ((Kind.eq, ls) :: r)) = walk (nl + ls.length) (num r) := by simp [num, walk]
      have hn : newOf ((Kind.eq, ls) :: r) = ls ++ newOf r := by simp [newOf]
      have he : eqOf ((Kind.eq, ls) :: r) = ls ++ eqOf r := by simp [eqOf]
      rw [hw, hn, he, unreportedFrom_above _ _ _ _ (fun x hx => by have := walk_ge _ _ x hx; omega)]
      have := ih (nl + ls.length)
      rw [show nl + 1 + ls.length = nl + ls.length + 1 by omega, this]
    | add =>
      have hw : walk nl (num ((Kind.add, ls) :: r)) = (nl + 1, ls.length) :: walk (nl + ls.length) (num r) := by simp [num, walk]
      have hn : newOf ((Kind.add, ls) :: r) = ls ++ newOf r := by simp [newOf]
      have he : eqOf ((Kind.add, ls) :: r) = eqOf r := by simp [eqOf]
      rw [hw, hn, he, unreportedFrom_inside _ _ _ _ _ _ (Nat.le_refl _) (Nat.le_refl _),
        unreportedFrom_cons_below _ _ _ _ (by simp)]
      have := ih (nl + ls.length)
      rw [show nl + 1 + ls.length = nl + ls.length + 1 by omega, this]
    | del =>
      have hw : walk nl (num ((Kind.del, ls) :: r)) = walk nl (num r) := by simp [num, walk]
      have hn : newOf ((Kind.del, ls) :: r) = newOf r := by simp [newOf]
      have he : eqOf ((Kind.del, ls) :: r) = eqOf r := by simp [eqOf]
      rw [hw, hn, he, ih nl]

theorem reported_walk {α : Type} (cs : List (LChunk α)) (nl : Nat) :
    reportedFrom (walk nl (num cs)) (nl + 1) (newOf cs) = addOf cs := by
  induction cs generalizing nl with
  | nil => rfl
  | cons c r ih =>
    obtain ⟨k, ls⟩ := c
    cases k with
    | eq =>
      have hw : walk nl (num ((Kind.eq, ls) :: r)) = walk (nl + ls.length) (num r) := by simp [num, walk]
      have hn : newOf ((Kind.eq, ls) :: r) = ls ++ newOf r := by simp [newOf]
      have he : addOf ((Kind.eq, ls) :: r) = addOf r := by simp [addOf]
      rw [hw, hn, he, reportedFrom_above _ _ _ _ (fun x hx => by have := walk_ge _ _ x hx; omega)]
      have := ih (nl + ls.length)
      rw [show nl + 1 + ls.length = nl + ls.length + 1 by omega, this]
    | add =>
      have hw : walk nl (num ((Kind.add, ls) :: r)) = (nl + 1, ls.length) :: walk (nl + ls.length) (num r) := by simp [num, walk]
      have hn : newOf ((Kind.add, ls) :: r) = ls ++ newOf r := by simp [newOf]
      have he : addOf ((Kind.add, ls) :: r) = ls ++ addOf r := by simp [addOf]
      rw [hw, hn, he, reportedFrom_inside _ _ _ _ _ _ (Nat.le_refl _) (Nat.le_refl _),
        reportedFrom_cons_below _ _ _ _ (by simp)]
      have := ih (nl + ls.length)
      rw [show nl + 1 + ls.length = nl + ls.length + 1 by omega, this]
    | del =>
      have hw : walk nl (num ((Kind.del, ls) :: r)) = walk nl (num r) := by simp [num, walk]
      have hn : newOf ((Kind.del, ls) :: r) = newOf r := by simp [newOf]
      have he : addOf ((Kind.del, ls) :: r) = addOf r := by simp [addOf]
      rw [hw, hn, he, ih nl]

/-- total number of reported lines of a range list -/
def rangeLines (rs : List Range) : Nat := (rs.map (·.2)).sum

theorem rangeLines_walk {α : Type} (cs : List (LChunk α)) (nl : Nat) :
    rangeLines (walk nl (num cs)) = (addOf cs).length := by
  induction cs generalizing nl with
  | nil => rfl
  | cons c r ih =>
    obtain ⟨k, ls⟩ := c
    simp only [rangeLines, num, addOf] at ih ⊢
    cases k <;> simp [walk, ih]

/-! ## the blame walk -/

/-- non-empty ranges, sorted, separated by at least one unreported line, inside `lo .. hi`:
    together with the cover statement this says "exactly the maximal runs" -/
def runsWF : Nat → Nat → List Range → Prop
  | _, _, [] => True
  | lo, hi, (s, n) :: r => lo ≤ s ∧ 1 ≤ n ∧ s + n ≤ hi + 1 ∧ runsWF (s + n + 1) hi r

theorem runsWF_mono {lo lo' hi : Nat} {rs : List Range} (h : runsWF lo hi rs) (hl : lo' ≤ lo) : runsWF lo' hi rs := by
  cases rs with
  | nil => trivial
  | cons r rs => obtain ⟨s, n⟩ := r; exact ⟨Nat.le_trans hl h.1, h.2⟩

theorem runsWF_rangesWF {lo hi : Nat} {rs : List Range} (h : runsWF lo hi rs) : rangesWF lo hi rs = true := by
  induction rs generalizing lo with
  | nil => rfl
  | cons r rs ih =>
    obtain ⟨s, n⟩ := r
    simp only [rangesWF, Bool.and_eq_true, decide_eq_true_eq]
    exact ⟨⟨h.1, h.2.2.1⟩, ih (runsWF_mono h.2.2.2 (by omega))⟩

/-- the flag of line `j` (1-based) when the flag list starts at line `i + 1` -/
def flagAt (i : Nat) (fl : List Bool) (j : Nat) : Bool := decide (i + 1 ≤ j) && fl.getD (j - (i + 1)) false

theorem flagAt_cons_head (i : Nat) (b : Bool) (r : List Bool) : flagAt i (b :: r) (i + 1) = b := by
  simp [flagAt]

theorem flagAt_cons_tail (i : Nat) (b : Bool) (r : List Bool) (j : Nat) (h : j ≠ i + 1) :
    flagAt i (b :: r) j = flagAt (i + 1) r j := by
  simp only [flagAt]
  by_cases hj : i + 2 ≤ j
  · have e : j - (i + 1) = (j - (i + 1 + 1)) + 1 := by omega
    rw [e, List.getD_cons_succ]
    have a : decide (i + 1 ≤ j) = true := decide_eq_true (by omega)
    have c : decide (i + 1 + 1 ≤ j) = true := decide_eq_true (by omega)
    rw [a, c]
  · have a : decide (i + 1 ≤ j) = false := decide_eq_false (by omega)
    have c : decide (i + 1 + 1 ≤ j) = false := decide_eq_false (by omega)
    rw [a, c]; rfl

theorem flagAt_below (i : Nat) (fl : List Bool) (j : Nat) (h : j ≤ i) : flagAt i fl j = false := by
  have : decide (i + 1 ≤ j) = false := decide_eq_false (by omega)
  rw [flagAt, this, Bool.false_and]

def coveredCur : Option Range → Nat → Bool
  | none, _ => false
  | some c, j => decide (c.1 ≤ j) && decide (j < c.1 + c.2)

/-- the invariant of the loop: the pending range ends exactly at the current index -/
def CurOK (i : Nat) : Option Range → Prop
  | none => True
  | some (s, n) => s + n = i + 1 ∧ 1 ≤ n

/-- shape of the output when a range is pending -/
def ShapeOK (i hi : Nat) : Option Range → List Range → Prop
  | none, rs => runsWF (i + 1) hi rs
  | some (s, n), rs => ∃ n' t, rs = (s, n') :: t ∧ n ≤ n' ∧ s + n' ≤ hi + 1 ∧ runsWF (s + n' + 1) hi t

theorem blameGo_spec (fl : List Bool) : ∀ (i : Nat) (cur : Option Range), CurOK i cur →
    (∀ j, covered (blameGo i cur fl) j = (coveredCur cur j || flagAt i fl j)) ∧
    ShapeOK i (i + fl.length) cur (blameGo i cur fl) := by
  induction fl with
  | nil =>
    intro i cur hc
    cases cur with
    | none => exact ⟨fun j => by simp [blameGo, covered, coveredCur, flagAt], by simp [blameGo, ShapeOK, runsWF]⟩
    | some c =>
      obtain ⟨s, n⟩ := c
      refine ⟨fun j => by simp [blameGo, covered, coveredCur, flagAt], ?_⟩
      simp only [blameGo, ShapeOK]
      exact ⟨n, [], rfl, Nat.le_refl _, by have := hc.1; simp; omega, trivial⟩
  | cons b r ih =>
    intro i cur hc
    have hlen : i + (b :: r).length = (i + 1) + r.length := by simp; omega
    rw [hlen]
    cases b with
    | true =>
      cases cur with
      | none =>
        obtain ⟨h1, h2⟩ := ih (i + 1) (some (i + 1, 1)) ⟨rfl, Nat.le_refl 1⟩
        simp only [blameGo]
        refine ⟨fun j => ?_, ?_⟩
        · rw [h1 j]
          by_cases hj : j = i + 1
          · subst hj; simp [coveredCur, flagAt_cons_head]
          · rw [flagAt_cons_tail i true r j hj]
            have : coveredCur (some (i + 1, 1)) j = false := by
              simp only [coveredCur]
              by_cases h : i + 1 ≤ j
              · have : decide (j < i + 1 + 1) = false := decide_eq_false (by omega)
                simp [this]
              · simp [h]
            rw [this]; rfl
        · obtain ⟨n', t, e, hn, hb, hw⟩ := h2
          simp only [ShapeOK]; rw [e]
          exact ⟨Nat.le_refl _, hn, hb, hw⟩
      | some c =>
        obtain ⟨s, n⟩ := c
        have hsn : s + n = i + 1 := hc.1
        have hif : (s + n == i + 1) = true := by simp [hsn]
        obtain ⟨h1, h2⟩ := ih (i + 1) (some (s, n + 1)) ⟨by omega, by omega⟩
        simp only [blameGo, hif, if_true]
        refine ⟨fun j => ?_, ?_⟩
        · rw [h1 j]
          by_cases hj : j = i + 1
          · subst hj
            have a : decide (s ≤ i + 1) = true := decide_eq_true (by omega)
            have c : decide (i + 1 < s + (n + 1)) = true := decide_eq_true (by omega)
            simp [coveredCur, flagAt_cons_head, a, c]
          · rw [flagAt_cons_tail i true r j hj]
            have : coveredCur (some (s, n + 1)) j = coveredCur (some (s, n)) j := by
              simp only [coveredCur]
              congr 1
              apply decide_eq_decide.mpr; omega
            rw [this]
        · obtain ⟨n', t, e, hn, hb, hw⟩ := h2
          exact ⟨n', t, e, by omega, hb, hw⟩
    | false =>
      cases cur with
      | none =>
        obtain ⟨h1, h2⟩ := ih (i + 1) none trivial
        simp only [blameGo]
        refine ⟨fun j => ?_, ?_⟩
        · rw [h1 j]
          by_cases hj : j = i + 1
          · subst hj
            have : flagAt (i + 1) r (i + 1) = false := flagAt_below _ _ _ (by omega)
            simp [coveredCur, flagAt_cons_head, this]
          · rw [flagAt_cons_tail i false r j hj]
        · exact runsWF_mono h2 (by omega)
      | some c =>
        obtain ⟨s, n⟩ := c
        have hsn : s + n = i + 1 := hc.1
        obtain ⟨h1, h2⟩ := ih (i + 1) none trivial
        simp only [blameGo]
        refine ⟨fun j => ?_, ?_⟩
        · rw [covered_cons, h1 j]
          by_cases hj : j = i + 1
          · subst hj
            have : flagAt (i + 1) r (i + 1) = false := flagAt_below _ _ _ (by omega)
            simp [coveredCur, flagAt_cons_head, this]
          · rw [flagAt_cons_tail i false r j hj]; simp [coveredCur]
        · refine ⟨n, _, rfl, Nat.le_refl _, by omega, ?_⟩
          simp only [ShapeOK] at h2
          rw [hsn]; exact h2

/-- the lines whose flag is `keep` -/
def pick {α : Type} (keep : Bool) : List α → List Bool → List α
  | l :: ls, b :: bs => if b == keep then l :: pick keep ls bs else pick keep ls bs
  | _, _ => []

theorem unreportedFrom_of_flags {α : Type} (rs : List Range) (ls : List α) :
    ∀ (i : Nat) (fl : List Bool), ls.length = fl.length → (∀ j, i + 1 ≤ j → covered rs j = flagAt i fl j) →
      unreportedFrom rs (i + 1) ls = pick false ls fl := by
  induction ls with
  | nil => intro i fl _ _; cases fl <;> rfl
  | cons l r ih =>
    intro i fl hlen hcov
    cases fl with
    | nil => simp at hlen
    | cons b bs =>
      have h0 := hcov (i + 1) (Nat.le_refl _)
      rw [flagAt_cons_head] at h0
      have ht := ih (i + 1) bs (by simpa using hlen)
        (fun j hj => by rw [hcov j (by omega), flagAt_cons_tail i b bs j (by omega)])
      simp only [unreportedFrom, h0, pick]
      cases b <;> simp [ht]

theorem reportedFrom_of_flags {α : Type} (rs : List Range) (ls : List α) :
    ∀ (i : Nat) (fl : List Bool), ls.length = fl.length → (∀ j, i + 1 ≤ j → covered rs j = flagAt i fl j) →
      reportedFrom rs (i + 1) ls = pick true ls fl := by
  induction ls with
  | nil => intro i fl _ _; cases fl <;> rfl
  | cons l r ih =>
    intro i fl hlen hcov
    cases fl with
    | nil => simp at hlen
    | cons b bs =>
      have h0 := hcov (i + 1) (Nat.le_refl _)
      rw [flagAt_cons_head] at h0
      have ht := ih (i + 1) bs (by simpa using hlen)
        (fun j hj => by rw [hcov j (by omega), flagAt_cons_tail i b bs j (by omega)])
      simp only [reportedFrom, h0, pick]
      cases b <;> simp [ht]

/-- `pick false` is monotone in the flags: flagging fewer lines keeps more -/
theorem pick_false_sublist {α : Type} (ls : List α) : ∀ (f g : List Bool), f.length = g.length →
    (∀ k, g.getD k false = true → f.getD k false = true) → (pick false ls f).Sublist (pick false ls g) := by
  induction ls with
  | nil => intro f g _ _; cases f <;> cases g <;> simp [pick]
  | cons l r ih =>
    intro f g hlen himp
    cases f with
    | nil => cases g with
      | nil => simp [pick]
      | cons _ _ => simp at hlen
    | cons a as =>
      cases g with
      | nil => simp at hlen
      | cons b bs =>
        have ht := ih as bs (by simpa using hlen) (fun k hk => by have := himp (k + 1); simpa using this hk)
        have h0 := himp 0
        simp only [List.getD_cons_zero] at h0
        cases a <;> cases b <;> simp [pick] at h0 ⊢
        all_goals first | exact ht | exact List.Sublist.cons _ ht

/-! ## ancestry -/

/-- `b` is `a` or reachable from `a` through parent links of the commit table -/
inductive Reach (t : Table) : Nat → Nat → Prop
  | refl (a : Nat) : Reach t a a
  | step {a b p : Nat} {c : Commit} : Reach t a b → lookup t b = some c → p ∈ c.parents → Reach t a p

theorem reachFrom_sound (t : Table) (o : Nat) : ∀ (fuel : Nat) (st seen : List Nat),
    (∀ x ∈ st, Reach t o x) → (∀ x ∈ seen, Reach t o x) → ∀ x ∈ reachFrom t fuel st seen, Reach t o x := by
  intro fuel
  induction fuel with
  | zero => intro st seen _ hs x hx; simp only [reachFrom] at hx; exact hs x hx
  | succ f ih =>
    intro st seen hst hs x hx
    cases st with
    | nil => simp only [reachFrom] at hx; exact hs x hx
    | cons h st =>
      simp only [reachFrom] at hx
      have hh : Reach t o h := hst h (by simp)
      have hst' : ∀ y ∈ st, Reach t o y := fun y hy => hst y (by simp [hy])
      split at hx
      · exact ih st seen hst' hs x hx
      · have hs' : ∀ y ∈ h :: seen, Reach t o y := by
          intro y hy
          rcases List.mem_cons.mp hy with rfl | hy
          · exact hh
          · exact hs y hy
        split at hx
        · next c hc =>
          refine ih _ _ ?_ hs' x hx
          intro y hy
          rcases List.mem_append.mp hy with hy | hy
          · exact Reach.step hh hc hy
          · exact hst' y hy
        · exact ih st _ hst' hs' x hx

theorem ancestors_sound (t : Table) (old : Nat) : ∀ x ∈ ancestors t old, Reach t old x :=
  reachFrom_sound t old _ _ _ (by intro x hx; simp at hx; subst hx; exact Reach.refl _) (by intro x hx; cases hx)

/-- a known commit that the fixed rule does not call new is the old revision or an ancestor of it -/
theorem not_new_is_ancestor (t : Table) (old h : Nat) (hk : (lookup t h).isSome = true)
    (hn : isNewAncestry t old h = false) : Reach t old h := by
  simp only [isNewAncestry] at hn
  split at hn
  · next he => have : h = old := by simpa using he
               subst this; exact Reach.refl _
  · split at hn
    · next hl => simp [hl] at hk
    · have : (ancestors t old).contains h = true := by simpa using hn
      exact ancestors_sound t old h (by simpa using this)

/-! ## compaction and sort -/

theorem filterGo_perm {α : Type} : ∀ (f : Nat) (l : List (Option α)), l.length ≤ f →
    (filterGo f l).Perm (l.filterMap id) := by
  intro f
  induction f with
  | zero => intro l hl; have : l = [] := by cases l <;> simp_all
            subst this; simp [filterGo]
  | succ f ih =>
    intro l hl
    cases l with
    | nil => simp [filterGo]
    | cons a r =>
      cases a with
      | some a =>
        simp only [filterGo, List.filterMap_cons, id]
        exact List.Perm.cons a (ih r (by simpa using hl))
      | none =>
        simp only [filterGo, List.filterMap_cons, id]
        cases hr : r.reverse with
        | nil =>
          have : r = [] := by simpa using hr
          subst this; simp
        | cons x m =>
          have hr' : r = m.reverse ++ [x] := List.reverse_eq_cons_iff.mp hr
          have hl' : (x :: m.reverse).length ≤ f := by
            have : r.length = m.length + 1 := by rw [hr']; simp
            simp at hl ⊢; omega
          refine (ih (x :: m.reverse) hl').trans ?_
          rw [hr']
          have : (x :: m.reverse).Perm (m.reverse ++ [x]) := by
            simpa using (List.perm_append_comm : ([x] ++ m.reverse).Perm (m.reverse ++ [x]))
          exact this.filterMap id

theorem insertByPath_perm {β : Type} (x : String × β) (l : List (String × β)) : (insertByPath x l).Perm (x :: l) := by
  induction l with
  | nil => simp [insertByPath]
  | cons y ys ih =>
    simp only [insertByPath]
    split
    · exact List.Perm.refl _
    · exact ((List.Perm.cons y ih).trans (List.Perm.swap x y ys))

theorem sortByPath_perm {β : Type} (l : List (String × β)) : (sortByPath l).Perm l := by
  induction l with
  | nil => simp [sortByPath]
  | cons x xs ih =>
    simp only [sortByPath, List.foldr_cons] at ih ⊢
    exact (insertByPath_perm x _).trans (List.Perm.cons x ih)

theorem insertByPath_sorted {β : Type} (x : String × β) (l : List (String × β))
    (h : l.Pairwise (fun a b => a.1 ≤ b.1)) : (insertByPath x l).Pairwise (fun a b => a.1 ≤ b.1) := by
  induction l with
  | nil => simp [insertByPath]
  | cons y ys ih =>
    simp only [insertByPath]
    have hy := List.pairwise_cons.mp h
    split
    · next hle =>
      refine List.pairwise_cons.mpr ⟨?_, h⟩
      intro a ha
      rcases List.mem_cons.mp ha with rfl | ha
      · exact hle
      · exact String.le_trans hle (hy.1 a ha)
    · next hnle =>
      have hyx : y.1 ≤ x.1 := by
        rcases String.le_total x.1 y.1 with h' | h'
        · exact absurd h' hnle
        · exact h'
      refine List.pairwise_cons.mpr ⟨?_, ih hy.2⟩
      intro a ha
      have := (insertByPath_perm x ys).subset ha
      rcases List.mem_cons.mp this with rfl | ha'
      · exact hyx
      · exact hy.1 a ha'

theorem sortByPath_sorted {β : Type} (l : List (String × β)) : (sortByPath l).Pairwise (fun a b => a.1 ≤ b.1) := by
  induction l with
  | nil => simp [sortByPath]
  | cons x xs ih =>
    simp only [sortByPath, List.foldr_cons] at ih ⊢
    exact insertByPath_sorted x _ ih

theorem eq_of_key_eq {β : Type} (l : List (String × β)) (hn : (l.map (·.1)).Nodup) :
    ∀ a ∈ l, ∀ b ∈ l, a.1 = b.1 → a = b := by
  induction l with
  | nil => intro a ha; cases ha
  | cons x xs ih =>
    simp only [List.map_cons, List.nodup_cons, List.mem_map, not_exists, not_and] at hn
    intro a ha b hb hab
    rcases List.mem_cons.mp ha with rfl | ha' <;> rcases List.mem_cons.mp hb with rfl | hb'
    · rfl
    · exact absurd hab.symm (hn.1 b hb')
    · exact absurd hab (hn.1 a ha')
    · exact ih hn.2 a ha' b hb' hab

end GoatSpec.Diff
