import GoatSpec.Mark
/-! # Proofs.Patch — the mark arrays of patch granularity (`patchScope`, pkg/tracking/types.go:556)

`mkA s m j` is the mark of line `j` (> `s`) in the array `m` of a patch scope that starts at line
`s`: 0 unchanged, 1 changed or comment, 2 covered by an insertion. The lemmas characterise the
loops of `markInserted` (`down`, `up`), `canInsert` (`back`) and `newPatchScope` (`fill`). -/
namespace GoatSpec.Patch
open GoatSpec

def mkA (s : Nat) (m : Array Nat) (j : Nat) : Nat := m.getD (j - s - 1) 0

theorem getD_set (m : Array Nat) (i k v : Nat) :
    (m.setIfInBounds i v).getD k 0 = if k = i ∧ i < m.size then v else m.getD k 0 := by
  simp only [Array.getD_eq_getD_getElem?, Array.getElem?_setIfInBounds]
  by_cases h : i = k
  · subst h
    by_cases hs : i < m.size <;> simp [hs]
  · have : ¬ k = i := fun e => h e.symm
    simp [h, this]

theorem mkA_set (s : Nat) (m : Array Nat) (i v j : Nat) (hj : s < j) (hi : s < i) :
    mkA s (m.setIfInBounds (i - s - 1) v) j = if j = i ∧ i - s - 1 < m.size then v else mkA s m j := by
  unfold mkA
  rw [getD_set]
  have : (j - s - 1 = i - s - 1) ↔ j = i := by omega
  simp [this]

theorem getD_pos_lt (m : Array Nat) (k : Nat) (h : m.getD k 0 ≠ 0) : k < m.size := by
  by_cases hk : k < m.size
  · exact hk
  · simp [Array.getD_eq_getD_getElem?, Array.getElem?_eq_none (Nat.le_of_not_lt hk)] at h

/-- `down`: marks a run of 1s below `j` (inclusive) as 2, nothing else changes -/
theorem down_spec (p : PatchScope) (fuel : Nat) : ∀ (j : Nat) (m : Array Nat),
    ∃ stop, stop ≤ j ∧
      (∀ x, p.s < x → stop < x → x ≤ j → mkA p.s m x = 1 ∧ mkA p.s (PatchScope.markInserted.down p j fuel m) x = 2) ∧
      (∀ x, p.s < x → (x ≤ stop ∨ j < x) → mkA p.s (PatchScope.markInserted.down p j fuel m) x = mkA p.s m x) ∧
      (PatchScope.markInserted.down p j fuel m).size = m.size := by
  induction fuel with
  | zero =>
    intro j m
    refine ⟨j, Nat.le_refl _, fun x _ h1 h2 => by omega, ?_, ?_⟩
    · intro x _ _; simp [PatchScope.markInserted.down]
    · simp [PatchScope.markInserted.down]
  | succ f ih =>
    intro j m
    unfold PatchScope.markInserted.down
    by_cases hj : j ≤ p.s
    · simp only [hj, if_true]
      exact ⟨j, Nat.le_refl _, fun x _ h1 h2 => by omega, fun _ _ _ => trivial, trivial⟩
    · simp only [hj, if_false]
      by_cases h1 : (m.getD (j - p.s - 1) 0 == 1) = true
      · simp only [h1, if_true]
        have hj' : p.s < j := by omega
        have hm1 : mkA p.s m j = 1 := by simpa [mkA] using h1
        have hin : j - p.s - 1 < m.size := getD_pos_lt m _ (by unfold mkA at hm1; omega)
        obtain ⟨stop, hs, ha, hb, hc⟩ := ih (j - 1) (m.setIfInBounds (j - p.s - 1) 2)
        refine ⟨stop, by omega, ?_, ?_, ?_⟩
        · intro x hx h2 h3
          by_cases hxj : x = j
          · subst hxj
            refine ⟨hm1, ?_⟩
            rw [hb x hx (Or.inr (by omega)), mkA_set p.s m x 2 x hx hx]
            simp [hin]
          · have := ha x hx h2 (by omega)
            rw [mkA_set p.s m j 2 x hx hj'] at this
            simp [hxj] at this
            exact this
        · intro x hx h2
          have hxj : x ≠ j := by omega
          rw [hb x hx (by omega), mkA_set p.s m j 2 x hx hj']
          simp [hxj]
        · rw [hc]; simp
      · have h1' : (m.getD (j - p.s - 1) 0 == 1) = false := by simpa using h1
        simp only [h1']
        refine ⟨j, Nat.le_refl _, fun x _ h1 h2 => by omega, ?_, ?_⟩
        · intro x _ _; simp
        · simp

/-- `up`: marks a run of 1s from `j` upwards as 2, nothing else changes -/
theorem up_spec (p : PatchScope) (fuel : Nat) : ∀ (j : Nat) (m : Array Nat), p.s < j →
    ∃ stop, j ≤ stop ∧
      (∀ x, j ≤ x → x < stop → mkA p.s m x = 1 ∧ mkA p.s (PatchScope.markInserted.up p j fuel m) x = 2) ∧
      (∀ x, p.s < x → (x < j ∨ stop ≤ x) → mkA p.s (PatchScope.markInserted.up p j fuel m) x = mkA p.s m x) ∧
      (PatchScope.markInserted.up p j fuel m).size = m.size := by
  induction fuel with
  | zero =>
    intro j m _
    refine ⟨j, Nat.le_refl _, fun x h1 h2 => by omega, ?_, ?_⟩
    · intro x _ _; simp [PatchScope.markInserted.up]
    · simp [PatchScope.markInserted.up]
  | succ f ih =>
    intro j m hj'
    unfold PatchScope.markInserted.up
    by_cases hj : j ≥ p.e
    · simp only [hj, if_true]
      exact ⟨j, Nat.le_refl _, fun x h1 h2 => by omega, fun _ _ _ => trivial, trivial⟩
    · simp only [hj, if_false]
      by_cases h1 : (m.getD (j - p.s - 1) 0 == 1) = true
      · simp only [h1, if_true]
        have hm1 : mkA p.s m j = 1 := by simpa [mkA] using h1
        have hin : j - p.s - 1 < m.size := getD_pos_lt m _ (by unfold mkA at hm1; omega)
        obtain ⟨stop, hs, ha, hb, hc⟩ := ih (j + 1) (m.setIfInBounds (j - p.s - 1) 2) (by omega)
        refine ⟨stop, by omega, ?_, ?_, ?_⟩
        · intro x h2 h3
          have hx : p.s < x := by omega
          by_cases hxj : x = j
          · subst hxj
            refine ⟨hm1, ?_⟩
            rw [hb x hx (Or.inl (by omega)), mkA_set p.s m x 2 x hx hx]
            simp [hin]
          · have := ha x (by omega) h3
            rw [mkA_set p.s m j 2 x hx hj'] at this
            simp [hxj] at this
            exact this
        · intro x hx h2
          have hxj : x ≠ j := by omega
          rw [hb x hx (by omega), mkA_set p.s m j 2 x hx hj']
          simp [hxj]
        · rw [hc]; simp
      · have h1' : (m.getD (j - p.s - 1) 0 == 1) = false := by simpa using h1
        simp only [h1']
        refine ⟨j, Nat.le_refl _, fun x h1 h2 => by omega, ?_, ?_⟩
        · intro x _ _; simp
        · simp

theorem get_ok (p : PatchScope) (line v : Nat) (h : p.get line = .ok v) :
    p.s < line ∧ line - p.s - 1 < p.marks.size ∧ v = mkA p.s p.marks line := by
  unfold PatchScope.get at h
  simp only at h
  split at h
  · cases h
  · next hl =>
    split at h
    · next hi =>
      cases h
      refine ⟨by omega, hi, ?_⟩
      simp [mkA, Array.getD_eq_getD_getElem?, hi]
    · cases h

/-- `back` answers `false` only when a covered line stands above `j`, joined to it by 1-marks -/
theorem back_false (p : PatchScope) (fuel : Nat) : ∀ (j : Nat), PatchScope.canInsert.back p j fuel = .ok false →
    ∃ j0, p.s < j0 ∧ j0 ≤ j ∧ mkA p.s p.marks j0 = 2 ∧ ∀ x, j0 < x → x ≤ j → mkA p.s p.marks x = 1 := by
  induction fuel with
  | zero => intro j h; simp [PatchScope.canInsert.back] at h
  | succ f ih =>
    intro j h
    unfold PatchScope.canInsert.back at h
    by_cases hj : j ≤ p.s
    · simp [hj] at h
    · simp only [hj, if_false] at h
      cases hg : p.get j with
      | error e => rw [hg] at h; cases h
      | ok v =>
        rw [hg] at h
        obtain ⟨h1, h2, h3⟩ := get_ok p j v hg
        by_cases hv : v = 1
        · subst hv
          simp only at h
          obtain ⟨j0, a, b, c, d⟩ := ih (j - 1) h
          refine ⟨j0, a, by omega, c, ?_⟩
          intro x hx1 hx2
          by_cases hxj : x = j
          · subst hxj; exact h3.symm
          · exact d x hx1 (by omega)
        · have : v = 2 := by
            match v, hv, h with
            | 0, _, h => simp at h
            | 1, hv, _ => exact absurd rfl hv
            | 2, _, _ => rfl
            | n+3, _, h => simp at h
          subst this
          exact ⟨j, h1, Nat.le_refl _, h3.symm, fun x a b => by omega⟩

theorem canInsert_false (p : PatchScope) (line : Nat) (h : p.canInsert line = .ok false) :
    p.s < line ∧ ∃ j0, p.s < j0 ∧ j0 ≤ line ∧ mkA p.s p.marks j0 = 2 ∧ ∀ x, j0 < x → x < line → mkA p.s p.marks x = 1 := by
  unfold PatchScope.canInsert at h
  cases hg : p.get line with
  | error e => rw [hg] at h; cases h
  | ok v =>
    rw [hg] at h
    obtain ⟨h1, h2, h3⟩ := get_ok p line v hg
    refine ⟨h1, ?_⟩
    by_cases hv : v = 2
    · subst hv
      exact ⟨line, h1, Nat.le_refl _, h3.symm, fun x a b => by omega⟩
    · have hb : PatchScope.canInsert.back p (line - 1) line = .ok false := by
        match v, hv, h with
        | 0, _, h => exact h
        | 1, _, h => exact h
        | 2, hv, _ => exact absurd rfl hv
        | n+3, _, h => exact h
      obtain ⟨j0, a, b, c, d⟩ := back_false p line (line - 1) hb
      exact ⟨j0, a, by omega, c, fun x hx1 hx2 => d x hx1 (by omega)⟩

/-- `markInserted`: bounds and size stay; a mark only changes from 1 to 2, and only on lines joined
    to `line` by 1-marks; the line itself becomes 2 when it was 1 -/
theorem markInserted_spec (p p' : PatchScope) (line : Nat) (h : p.markInserted line = .ok p') :
    p'.s = p.s ∧ p'.e = p.e ∧ p'.marks.size = p.marks.size ∧ p.s < line ∧
    (∀ x, p.s < x → mkA p.s p'.marks x ≠ mkA p.s p.marks x →
      mkA p.s p.marks x = 1 ∧ mkA p.s p'.marks x = 2 ∧
      ∀ y, (x < y ∧ y < line) ∨ (line < y ∧ y < x) → mkA p.s p.marks y = 1) ∧
    (mkA p.s p.marks line = 1 → mkA p.s p'.marks line = 2) := by
  unfold PatchScope.markInserted at h
  cases hg : p.get line with
  | error e => rw [hg] at h; cases h
  | ok v =>
    rw [hg] at h
    obtain ⟨h1, h2, h3⟩ := get_ok p line v hg
    simp only at h
    cases h
    -- m0
    generalize hm0 : (if (v == 1) = true then p.marks.setIfInBounds (line - p.s - 1) 2 else p.marks) = m0
    have m0spec : ∀ x, p.s < x → mkA p.s m0 x = if x = line ∧ v = 1 then 2 else mkA p.s p.marks x := by
      intro x hx
      rw [← hm0]
      by_cases hv : v = 1
      · subst hv
        simp only [beq_self_eq_true, if_true]
        rw [mkA_set p.s p.marks line 2 x hx h1]
        simp [h2]
      · have : (v == 1) = false := by simpa using hv
        simp [this, hv]
    have m0size : m0.size = p.marks.size := by
      rw [← hm0]; split <;> simp
    obtain ⟨sd, hsd, da, db, dc⟩ := down_spec p line (line - 1) m0
    obtain ⟨su, hsu, ua, ub, uc⟩ := up_spec p (p.e - line) (line + 1)
      (PatchScope.markInserted.down p (line - 1) line m0) (by omega)
    refine ⟨rfl, rfl, by simp only; rw [uc, dc, m0size], h1, ?_, ?_⟩
    · intro x hx hne
      simp only at hne
      -- three regions: below line, line itself, above line
      by_cases hlt : x < line
      · -- below: up leaves it, down decides
        rw [ub x hx (Or.inl (by omega))] at hne ⊢
        by_cases hreg : sd < x
        · have := da x hx hreg (by omega)
          rw [m0spec x hx] at this
          have hxl : ¬ (x = line ∧ v = 1) := by omega
          simp only [hxl, if_false] at this
          refine ⟨this.1, this.2, ?_⟩
          intro y hy
          rcases hy with ⟨a, b⟩ | ⟨a, b⟩
          · have := (da y (by omega) (by omega) (by omega)).1
            rw [m0spec y (by omega)] at this
            have hyl : ¬ (y = line ∧ v = 1) := by omega
            simpa [hyl] using this
          · omega
        · exfalso
          rw [db x hx (Or.inl (by omega)), m0spec x hx] at hne
          have hxl : ¬ (x = line ∧ v = 1) := by omega
          simp [hxl] at hne
      · by_cases heq : x = line
        · subst heq
          rw [ub x hx (Or.inl (by omega)), db x hx (Or.inr (by omega)), m0spec x hx] at hne ⊢
          by_cases hv : v = 1
          · subst hv
            exact ⟨h3.symm, by simp, fun y hy => by omega⟩
          · simp [hv] at hne
        · -- above: up decides, down and m0 leave it
          have hgt : line < x := by omega
          by_cases hreg : x < su
          · have := ua x (by omega) hreg
            rw [db x hx (Or.inr (by omega)), m0spec x hx] at this
            have hxl : ¬ (x = line ∧ v = 1) := by omega
            simp only [hxl, if_false] at this
            refine ⟨this.1, this.2, ?_⟩
            intro y hy
            rcases hy with ⟨a, b⟩ | ⟨a, b⟩
            · omega
            · have := (ua y (by omega) (by omega)).1
              rw [db y (by omega) (Or.inr (by omega)), m0spec y (by omega)] at this
              have hyl : ¬ (y = line ∧ v = 1) := by omega
              simpa [hyl] using this
          · exfalso
            rw [ub x hx (Or.inr (by omega)), db x hx (Or.inr (by omega)), m0spec x hx] at hne
            have hxl : ¬ (x = line ∧ v = 1) := by omega
            simp [hxl] at hne
    · intro hl
      simp only
      rw [ub line h1 (Or.inl (by omega)), db line h1 (Or.inr (by omega)), m0spec line h1]
      have : v = 1 := by rw [h3]; exact hl
      simp [this]

/-- a line counts for a patch when it is changed or a comment line -/
def flag (env : Env) (x : Nat) : Bool :=
  (match env.isChanged x with | .ok true => true | _ => false) || (match env.isComment x with | .ok true => true | _ => false)

theorem fill_spec (env : Env) (s : Nat) (fuel : Nat) : ∀ (i : Nat) (acc m : Array Nat),
    newPatchScope.fill env s i fuel acc = .ok m → acc.size = i →
    m.size = i + fuel ∧ ∀ k, k < i + fuel → m.getD k 0 = if k < i then acc.getD k 0 else (if flag env (s + k + 1) then 1 else 0) := by
  induction fuel with
  | zero =>
    intro i acc m h hi
    simp [newPatchScope.fill] at h
    subst h
    refine ⟨by omega, fun k hk => ?_⟩
    simp [show k < i by omega]
  | succ f ih =>
    intro i acc m h hi
    unfold newPatchScope.fill at h
    cases ha : env.isChanged (s + i + 1) with
    | error e => rw [ha] at h; cases h
    | ok a =>
      cases hb : env.isComment (s + i + 1) with
      | error e => rw [ha, hb] at h; cases h
      | ok b =>
        rw [ha, hb] at h
        simp only at h
        obtain ⟨h1, h2⟩ := ih (i + 1) _ m h (by simp [hi])
        refine ⟨by omega, fun k hk => ?_⟩
        rw [h2 k (by omega)]
        by_cases hki : k < i
        · simp [hki, show k < i + 1 by omega, Array.getD_eq_getD_getElem?, Array.getElem?_push, show k ≠ acc.size by omega]
        · by_cases hke : k = i
          · subst hke
            have : flag env (s + k + 1) = (a || b) := by
              unfold flag; rw [ha, hb]; cases a <;> cases b <;> rfl
            simp [Array.getD_eq_getD_getElem?, hi, this]
            simp [← hi]
          · simp [hki, show ¬ k < i + 1 by omega]

theorem newPatchScope_spec (env : Env) (s e : Nat) (ps : PatchScope) (h : newPatchScope env s e = .ok ps) :
    ps.s = s ∧ ps.e = e ∧ ps.marks.size = e - s - 1 ∧ ∀ x, s < x → mkA s ps.marks x = if x < e ∧ flag env x = true then 1 else 0 := by
  unfold newPatchScope at h
  simp only at h
  cases hf : newPatchScope.fill env s 0 (e - s - 1) #[] with
  | error er => rw [hf] at h; cases h
  | ok m =>
    rw [hf] at h
    cases h
    obtain ⟨h1, h2⟩ := fill_spec env s (e - s - 1) 0 #[] m hf rfl
    refine ⟨rfl, rfl, by simpa using h1, fun x hx => ?_⟩
    unfold mkA
    simp only
    by_cases hxe : x < e
    · rw [h2 (x - s - 1) (by omega)]
      have : s + (x - s - 1) + 1 = x := by omega
      simp [this, hxe]
    · have : ¬ (x - s - 1 < m.size) := by omega
      simp [Array.getD_eq_getD_getElem?, Array.getElem?_eq_none (Nat.le_of_not_lt this), hxe]

theorem lookup_cons_filter {β : Type} (key k : Nat × Nat) (v : β) (l : List ((Nat × Nat) × β)) :
    ((key, v) :: l.filter (fun kv => kv.1 != key)).lookup k = if k == key then some v else l.lookup k := by
  by_cases hk : k = key
  · subst hk; simp [List.lookup]
  · have hk' : (k == key) = false := by simpa using hk
    simp only [List.lookup, hk']
    induction l with
    | nil => rfl
    | cons a r ih =>
      obtain ⟨a1, a2⟩ := a
      by_cases ha : a1 = key
      · subst ha
        simp [List.filter, List.lookup, hk', ih]
      · have ha' : (a1 != key) = true := by simpa using ha
        simp only [List.filter, ha', List.lookup]
        by_cases hka : k = a1
        · subst hka; simp
        · have : (k == a1) = false := by simpa using hka
          simp [this, ih]

end GoatSpec.Patch
