import GoatSpec.RuntimeSpec
/-! # Helper lemmas for C07 (generated runtime). Core Lean only. -/
namespace GoatSpec.Runtime

/-! ## the status array -/

theorem get_set_self {st : Status} {i v : Nat} (h : i < st.length) : get (st.set i v) i = v := by
  simp [get, List.getD_eq_getElem?_getD, List.getElem?_set_self h]

theorem get_set_ne {st : Status} {i j v : Nat} (h : i ≠ j) : get (st.set i v) j = get st j := by
  simp [get, List.getD_eq_getElem?_getD, List.getElem?_set_ne h]

theorem get_of_length_le {st : Status} {i : Nat} (h : st.length ≤ i) : get st i = 0 := by
  simp [get, List.getD_eq_getElem?_getD, List.getElem?_eq_none h]

theorem get_initStatus (n i : Nat) : get (initStatus n) i = 0 := by
  simp only [get, initStatus, List.getD_eq_getElem?_getD, List.getElem?_replicate]
  split <;> rfl

theorem length_initStatus (n : Nat) : (initStatus n).length = n + 1 := by simp [initStatus]

theorem length_track (m : Mode) (st : Status) (id : Int) : (track m st id).length = st.length := by
  unfold track
  split
  · cases m <;> simp
  · rfl

theorem length_run (m : Mode) (ops : List Int) : ∀ st : Status, (run m st ops).length = st.length := by
  induction ops with
  | nil => intro st; rfl
  | cons a r ih => intro st; simp only [run, List.foldl_cons] at ih ⊢; rw [ih, length_track]

/-- a call with an id outside `1 .. TRACK_ID_END-1` changes nothing -/
theorem track_out_of_range (m : Mode) (st : Status) (id : Int) (h : id ≤ 0 ∨ (st.length : Int) ≤ id) :
    track m st id = st := by
  unfold track
  rw [if_neg (by omega)]

/-- one `Track` step on a counter -/
def step (m : Mode) (c : Nat) : Nat :=
  match m with
  | .bool => 1
  | .count => (c + 1) % W

/-- `k` steps on a counter, closed form -/
def upd (m : Mode) (c k : Nat) : Nat :=
  match m with
  | .bool => if k = 0 then c else 1
  | .count => if k = 0 then c else (c + k) % W

theorem upd_step (m : Mode) (c k : Nat) : upd m (step m c) k = upd m c (k + 1) := by
  cases m
  · simp only [upd, step]; split <;> simp
  · simp only [upd, step, W]
    split
    · next h => subst h; simp
    · simp; omega

theorem get_track (m : Mode) (st : Status) (id : Int) (j : Nat) :
    get (track m st id) j =
      if id = (j : Int) ∧ 0 < j ∧ j < st.length then step m (get st j) else get st j := by
  unfold track
  by_cases hg : 0 < id ∧ id < (st.length : Int)
  · rw [if_pos hg]
    by_cases hj : id = (j : Int)
    · subst hj
      have hlt : j < st.length := by omega
      have hpos : 0 < j := by omega
      rw [if_pos ⟨rfl, hpos, hlt⟩]
      cases m <;> simp [step, Int.toNat_natCast, get_set_self hlt]
    · rw [if_neg (fun h => hj h.1)]
      have hne : id.toNat ≠ j := by omega
      cases m <;> simp [get_set_ne hne]
  · rw [if_neg hg, if_neg]
    intro h; apply hg; omega

theorem occ_cons (j : Nat) (a : Int) (r : List Int) :
    occ j (a :: r) = occ j r + (if a = (j : Int) then 1 else 0) := by
  simp only [occ, List.count_cons, beq_iff_eq]

/-- the counter of an in-range id after any call sequence, from any start state -/
theorem get_run (m : Mode) (ops : List Int) : ∀ (st : Status) (j : Nat),
    get (run m st ops) j = if 0 < j ∧ j < st.length then upd m (get st j) (occ j ops) else get st j := by
  induction ops with
  | nil =>
    intro st j
    simp only [run, List.foldl_nil, occ, List.count_nil]
    cases m <;> simp [upd]
  | cons a r ih =>
    intro st j
    have ih' := ih (track m st a) j
    simp only [run, List.foldl_cons] at ih' ⊢
    rw [ih', length_track, get_track, occ_cons]
    by_cases hr : 0 < j ∧ j < st.length
    · rw [if_pos hr, if_pos hr]
      by_cases ha : a = (j : Int)
      · rw [if_pos ⟨ha, hr.1, hr.2⟩, if_pos ha, upd_step]
      · rw [if_neg (fun h => ha h.1), if_neg ha]; rfl
    · rw [if_neg hr, if_neg hr, if_neg (fun h => hr ⟨h.2.1, h.2.2⟩)]

theorem upd_zero_eq_expCount (m : Mode) (k : Nat) : upd m 0 k = expCount m k := by
  cases m
  · simp only [upd, expCount]; split <;> omega
  · simp only [upd, expCount, W]; split
    · next h => subst h; rfl
    · simp

/-- the whole status array after any call sequence on a fresh runtime -/
theorem get_run_init (cfg : Cfg) (ops : List Int) (j : Nat) :
    get (run cfg.mode (initStatus cfg.n) ops) j = expStatus cfg ops j := by
  rw [get_run, get_initStatus, length_initStatus, upd_zero_eq_expCount]
  unfold expStatus
  by_cases h : 0 < j ∧ j < cfg.n + 1
  · rw [if_pos h, if_pos (by omega)]
  · rw [if_neg h, if_neg (by omega)]

theorem run_init_eq (cfg : Cfg) (ops : List Int) :
    run cfg.mode (initStatus cfg.n) ops = (List.range (cfg.n + 1)).map (expStatus cfg ops) := by
  apply List.ext_getElem?
  intro i
  have hl := length_run cfg.mode ops (initStatus cfg.n)
  rw [length_initStatus] at hl
  have hg := get_run_init cfg ops i
  simp only [get, List.getD_eq_getElem?_getD] at hg
  by_cases hi : i < cfg.n + 1
  · rw [List.getElem?_map, List.getElem?_range hi]
    rw [List.getElem?_eq_getElem (by omega)] at hg ⊢
    simp at hg ⊢
    exact hg
  · rw [List.getElem?_eq_none (by omega), List.getElem?_eq_none (by simp; omega)]

/-! ## bursts -/

theorem run_append (m : Mode) (st : Status) (a b : List Int) : run m st (a ++ b) = run m (run m st a) b := by
  simp [run, List.foldl_append]

theorem trackN_track (m : Mode) (st : Status) (id : Int) (k : Nat) :
    trackN m (track m st id) id k = trackN m st id (k + 1) := by
  unfold trackN track
  by_cases hg : 0 < id ∧ id < (st.length : Int)
  · have hlt : id.toNat < st.length := by omega
    by_cases hk : k = 0
    · subst hk; simp [hg]
    · cases m
      · simp [hg, hk, List.set_set]
      · simp only [hg, hk, and_self, if_true, if_false, List.length_set, List.set_set, get_set_self hlt,
          Nat.succ_ne_zero]
        congr 1
        simp only [W]; omega
  · by_cases hk : k = 0 <;> simp [hg, hk]

theorem run_replicate (m : Mode) (id : Int) (k : Nat) : ∀ st : Status,
    run m st (List.replicate k id) = trackN m st id k := by
  induction k with
  | zero => intro st; simp [run, trackN]
  | succ k ih =>
    intro st
    rw [List.replicate_succ]
    show run m (track m st id) (List.replicate k id) = _
    rw [ih, trackN_track]

/-- the driver's burst evaluation is the plain call sequence -/
theorem runN_eq (m : Mode) (ops : List (Int × Nat)) : ∀ st : Status, runN m st ops = run m st (expand ops) := by
  induction ops with
  | nil => intro st; rfl
  | cons o r ih =>
    intro st
    simp only [runN, List.foldl_cons, expand, List.flatMap_cons] at ih ⊢
    rw [run_append, run_replicate]
    exact ih _

theorem occN_eq (j : Nat) (ops : List (Int × Nat)) : occN j ops = occ j (expand ops) := by
  induction ops with
  | nil => rfl
  | cons o r ih =>
    simp only [occN, List.foldr_cons, expand, List.flatMap_cons, occ, List.count_append,
      List.count_replicate, beq_iff_eq] at ih ⊢
    rw [ih]

theorem expStatusN_eq (cfg : Cfg) (ops : List (Int × Nat)) : expStatusN cfg ops = expStatus cfg (expand ops) := by
  funext id
  simp only [expStatusN, expStatus, occN_eq]

/-! ## commutativity, interleavings -/

theorem track_comm (m : Mode) (st : Status) (a b : Int) :
    track m (track m st a) b = track m (track m st b) a := by
  by_cases hab : a = b
  · subst hab; rfl
  · apply List.ext_getElem?
    intro i
    -- compare through lengths and `get`
    have hl : (track m (track m st a) b).length = (track m (track m st b) a).length := by
      simp only [length_track]
    by_cases hi : i < (track m (track m st a) b).length
    · have hi' : i < (track m (track m st b) a).length := hl ▸ hi
      have : get (track m (track m st a) b) i = get (track m (track m st b) a) i := by
        simp only [get_track, length_track]
        by_cases ha : a = (i : Int)
        · have hb : ¬ b = (i : Int) := fun hb => hab (ha.trans hb.symm)
          simp [ha, hb]
        · simp [ha]
      simp only [get, List.getD_eq_getElem?_getD] at this
      rw [List.getElem?_eq_getElem hi, List.getElem?_eq_getElem hi'] at this ⊢
      simpa using this
    · rw [List.getElem?_eq_none (by omega), List.getElem?_eq_none (by omega)]

theorem run_perm (m : Mode) {l₁ l₂ : List Int} (p : l₁.Perm l₂) (st : Status) : run m st l₁ = run m st l₂ :=
  p.foldl_eq' (fun x _ y _ z => track_comm m z x y) st

/-- `s` is an interleaving of the call lists `ls`: it is built by repeatedly taking the next
    call of some caller (each call being one atomic step on the status array) -/
inductive Interleave : List (List Int) → List Int → Prop where
  | done {ls : List (List Int)} : (∀ l ∈ ls, l = []) → Interleave ls []
  | step {ls : List (List Int)} {x : Int} {s : List Int} (i : Nat) (rest : List Int) :
      ls[i]? = some (x :: rest) → Interleave (ls.set i rest) s → Interleave ls (x :: s)

theorem flatten_all_nil : ∀ {ls : List (List Int)}, (∀ l ∈ ls, l = []) → ls.flatten = []
  | [], _ => rfl
  | l :: t, h => by
    have h1 : l = [] := h l (by simp)
    have h2 := flatten_all_nil (ls := t) (fun x hx => h x (by simp [hx]))
    simp [h1, h2]

theorem flatten_take_perm : ∀ {ls : List (List Int)} {i : Nat} {x : Int} {rest : List Int},
    ls[i]? = some (x :: rest) → ls.flatten.Perm (x :: (ls.set i rest).flatten)
  | [], i, _, _, h => by simp at h
  | l :: t, 0, x, rest, h => by
    simp only [List.getElem?_cons_zero, Option.some.injEq] at h
    subst h
    simp
  | l :: t, i + 1, x, rest, h => by
    simp only [List.getElem?_cons_succ] at h
    have ih := flatten_take_perm (ls := t) h
    simp only [List.set_cons_succ, List.flatten_cons]
    exact ((List.Perm.append_left l ih).trans List.perm_middle)

theorem Interleave.perm {ls : List (List Int)} {s : List Int} (h : Interleave ls s) : s.Perm ls.flatten := by
  induction h with
  | done hn => rw [flatten_all_nil hn]
  | step i rest hi _ ih => exact ((flatten_take_perm hi).trans (List.Perm.cons _ ih.symm)).symm

/-! ## sorting -/

theorem insertBy_perm (le : Item → Item → Bool) (x : Item) : ∀ l : List Item, (insertBy le x l).Perm (x :: l)
  | [] => List.Perm.refl _
  | y :: r => by
    simp only [insertBy]
    split
    · exact List.Perm.refl _
    · exact ((insertBy_perm le x r).cons y).trans (List.Perm.swap x y r)

theorem sortBy_perm (le : Item → Item → Bool) : ∀ l : List Item, (sortBy le l).Perm l
  | [] => List.Perm.refl _
  | x :: r => by
    show (insertBy le x (sortBy le r)).Perm (x :: r)
    exact (insertBy_perm le x _).trans ((sortBy_perm le r).cons x)

theorem sortedBy_tail {le : Item → Item → Bool} {a : Item} {l : List Item} (h : sortedBy le (a :: l) = true) :
    sortedBy le l = true := by
  cases l with
  | nil => rfl
  | cons b r => simp only [sortedBy, Bool.and_eq_true] at h; exact h.2

theorem sortedBy_insertBy (le : Item → Item → Bool) (tot : ∀ a b, le a b = true ∨ le b a = true) (x : Item) :
    ∀ l : List Item, sortedBy le l = true → sortedBy le (insertBy le x l) = true
  | [], _ => rfl
  | y :: r, h => by
    simp only [insertBy]
    by_cases hxy : le x y = true
    · rw [if_pos hxy]; simp only [sortedBy, Bool.and_eq_true]; exact ⟨hxy, h⟩
    · rw [if_neg hxy]
      have hyx : le y x = true := (tot x y).resolve_left hxy
      have ih := sortedBy_insertBy le tot x r (sortedBy_tail h)
      cases r with
      | nil => simp [insertBy, sortedBy, hyx]
      | cons z r' =>
        simp only [sortedBy, Bool.and_eq_true] at h
        simp only [insertBy] at ih ⊢
        split
        · next hxz => simp only [sortedBy, Bool.and_eq_true]; exact ⟨hyx, hxz, h.2⟩
        · next hxz =>
          rw [if_neg hxz] at ih
          simp only [sortedBy, Bool.and_eq_true]
          exact ⟨h.1, ih⟩

theorem sortedBy_sortBy (le : Item → Item → Bool) (tot : ∀ a b, le a b = true ∨ le b a = true) :
    ∀ l : List Item, sortedBy le (sortBy le l) = true
  | [] => rfl
  | x :: r => sortedBy_insertBy le tot x _ (sortedBy_sortBy le tot r)

theorem keyLE_total (o : Nat) (a b : Item) : keyLE o a b = true ∨ keyLE o b a = true := by
  unfold keyLE
  split <;> simp only [decide_eq_true_eq] <;> omega

theorem coveredCount_perm {l₁ l₂ : List Item} (p : l₁.Perm l₂) : coveredCount l₁ = coveredCount l₂ :=
  (p.filter _).length_eq

/-! ## /track -/

theorem coveredCount_map (f : Nat → Nat) (ids : List Nat) :
    coveredCount (ids.map (fun id => Item.mk id (f id))) = (ids.filter (fun id => decide (f id > 0))).length := by
  simp only [coveredCount, List.filter_map, List.length_map]
  rfl

theorem compResult_ok (cfg : Cfg) (st : Status) (exp : Nat → Nat) (hst : ∀ id, get st id = exp id) (o c : Nat) :
    resultOK cfg exp o c (compResult cfg st o c) = true := by
  have hmap : (compIds cfg c).map (fun id => Item.mk id (get st id))
      = (compIds cfg c).map (fun id => Item.mk id (exp id)) := by
    apply List.map_congr_left; intro id _; rw [hst]
  have hp : (sortBy (keyLE o) (sortBy (keyLE 2) ((compIds cfg c).map (fun id => Item.mk id (get st id))))).Perm
      ((compIds cfg c).map (fun id => Item.mk id (get st id))) :=
    (sortBy_perm _ _).trans (sortBy_perm _ _)
  unfold resultOK
  simp only [Bool.and_eq_true]
  refine ⟨⟨⟨⟨⟨⟨?_, ?_⟩, ?_⟩, ?_⟩, ?_⟩, ?_⟩, ?_⟩
  · simp [compResult]
  · simp [compResult]
  · rw [List.isPerm_iff, ← hmap]; exact hp
  · simp [compResult]
  · rw [beq_iff_eq]; exact (coveredCount_perm hp).symm
  · rw [beq_iff_eq]
    simp only [compResult, expRate]
    by_cases h : (compIds cfg c).length = 0
    · simp [h]
    · have h' : (compIds cfg c).length > 0 := by omega
      simp [h, h']
  · exact sortedBy_sortBy _ (keyLE_total o) _

theorem resultsOK_map (cfg : Cfg) (st : Status) (exp : Nat → Nat) (hst : ∀ id, get st id = exp id) (o : Nat) :
    ∀ cs : List Nat, resultsOK cfg exp o cs (cs.map (compResult cfg st o)) = true
  | [] => rfl
  | c :: r => by
    simp only [List.map_cons, resultsOK, Bool.and_eq_true]
    exact ⟨compResult_ok cfg st exp hst o c, resultsOK_map cfg st exp hst o r⟩

theorem trackHandler_ok (cfg : Cfg) (st : Status) (exp : Nat → Nat) (hst : ∀ id, get st id = exp id)
    (order component : Str) : trackOK cfg exp order component (trackHandler cfg st order component) = true := by
  unfold trackOK trackHandler
  cases resolveAll cfg.comps component with
  | none => rfl
  | some cs => exact resultsOK_map cfg st exp hst _ cs

/-! ## /metrics (fixed template) -/

theorem emitP_ok (f : Nat × Nat → Except Panic Row) (g : Nat × Nat → Row) :
    ∀ (l : List (Nat × Nat)) (out : List Row), (∀ x ∈ l, f x = .ok (g x)) →
      emitP f l out = .ok ((l.map g).reverse ++ out)
  | [], out, _ => by simp [emitP]
  | x :: r, out, h => by
    have hx := h x (by simp)
    have ih := emitP_ok f g r (g x :: out) (fun y hy => h y (by simp [hy]))
    simp only [emitP, hx, ih, List.map_cons, List.reverse_cons, List.append_assoc, List.singleton_append]

/-- value printed for component `c` under indicator `ind` -/
def metricValue (cfg : Cfg) (st : Status) (ind : Ind) (c : Nat) : Nat :=
  match ind with
  | .total => (compIds cfg c).length
  | .covered => coveredOf cfg st c
  | .ratio => if (compIds cfg c).length > 0 then coveredOf cfg st c * 100 / (compIds cfg c).length else 0

theorem rowFixed_ok (cfg : Cfg) (st : Status) (ts : List Nat) (ind : Ind) (x : Nat × Nat) (hx : x ∈ ts.zipIdx) :
    rowFixed cfg (ts.map (coveredOf cfg st)) (ts.map (fun c => (compIds cfg c).length)) ind x
      = .ok ⟨ind, compName cfg x.1, metricValue cfg st ind x.1⟩ := by
  have h := List.mem_zipIdx_iff_getElem?.mp hx
  cases ind <;> simp [rowFixed, metricValue, List.getElem?_map, h]

theorem map_zipIdx_fst {β : Type} (h : Nat → β) (ts : List Nat) : ts.zipIdx.map (fun x => h x.1) = ts.map h := by
  have := List.zipIdx_map_fst 0 ts
  conv => rhs; rw [← this]
  rw [List.map_map]; rfl

/-- the fixed handler never panics and prints, for every target, total / covered / ratio -/
theorem metrics_eq (cfg : Cfg) (st : Status) (cur : Str) :
    metrics cfg st cur =
      match targets cfg cur with
      | none => .invalid
      | some ts => .ok (ts.map (fun c => ⟨.total, compName cfg c, metricValue cfg st .total c⟩)
          ++ ts.map (fun c => ⟨.covered, compName cfg c, metricValue cfg st .covered c⟩)
          ++ ts.map (fun c => ⟨.ratio, compName cfg c, metricValue cfg st .ratio c⟩)) := by
  unfold metrics
  cases targets cfg cur with
  | none => rfl
  | some ts =>
    have e := fun ind out => emitP_ok (rowFixed cfg (ts.map (coveredOf cfg st)) (ts.map (fun c => (compIds cfg c).length)) ind)
      (fun x => ⟨ind, compName cfg x.1, metricValue cfg st ind x.1⟩) ts.zipIdx out
      (fun x hx => rowFixed_ok cfg st ts ind x hx)
    simp only [fillFixed, indicators, emitAllP, e, List.reverse_append, List.reverse_reverse, List.append_nil,
      List.append_assoc]
    rw [map_zipIdx_fst (fun c => (⟨.total, compName cfg c, metricValue cfg st .total c⟩ : Row)),
      map_zipIdx_fst (fun c => (⟨.covered, compName cfg c, metricValue cfg st .covered c⟩ : Row)),
      map_zipIdx_fst (fun c => (⟨.ratio, compName cfg c, metricValue cfg st .ratio c⟩ : Row))]

theorem coveredOf_eq (cfg : Cfg) (st : Status) (exp : Nat → Nat) (hst : ∀ id, get st id = exp id) (c : Nat) :
    coveredOf cfg st c = expCovered cfg exp c := by
  simp only [coveredOf, expCovered, hst]

theorem compResult_fields (cfg : Cfg) (st : Status) (o c : Nat) :
    (compResult cfg st o c).name = compName cfg c
    ∧ (compResult cfg st o c).total = metricValue cfg st .total c
    ∧ (compResult cfg st o c).covered = metricValue cfg st .covered c
    ∧ (compResult cfg st o c).rate = metricValue cfg st .ratio c := by
  refine ⟨rfl, rfl, ?_, ?_⟩
  · simp only [compResult, metricValue, coveredOf, coveredCount_map]
  · simp only [compResult, metricValue, coveredOf, coveredCount_map]

theorem rowsOfResults_map (cfg : Cfg) (st : Status) (o : Nat) (ts : List Nat) :
    rowsOfResults (ts.map (compResult cfg st o))
      = ts.map (fun c => ⟨.total, compName cfg c, metricValue cfg st .total c⟩)
        ++ ts.map (fun c => ⟨.covered, compName cfg c, metricValue cfg st .covered c⟩)
        ++ ts.map (fun c => ⟨.ratio, compName cfg c, metricValue cfg st .ratio c⟩) := by
  have f1 : ∀ c, (compResult cfg st o c).name = compName cfg c := fun c => (compResult_fields cfg st o c).1
  have f2 : ∀ c, (compResult cfg st o c).total = metricValue cfg st .total c := fun c => (compResult_fields cfg st o c).2.1
  have f3 : ∀ c, (compResult cfg st o c).covered = metricValue cfg st .covered c := fun c => (compResult_fields cfg st o c).2.2.1
  have f4 : ∀ c, (compResult cfg st o c).rate = metricValue cfg st .ratio c := fun c => (compResult_fields cfg st o c).2.2.2
  simp only [rowsOfResults, List.map_map, Function.comp_def, f1, f2, f3, f4]

end GoatSpec.Runtime
