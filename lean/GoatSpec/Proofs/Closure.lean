import GoatSpec.Ids
/-! # Completeness of the fuelled import walk: with fuel > number of packages not yet visited the
    result is closed under imports (helper for C05.closure_complete) -/
namespace GoatSpec

/-- number of packages of the universe `U` not yet visited -/
def unvisited (U v : List Nat) : Nat := (U.filter (fun p => decide (p ∉ v))).length

/-- filtering with a stronger predicate keeps fewer elements -/
theorem length_filter_mono {α : Type} (p q : α → Bool) (l : List α) (h : ∀ a, p a = true → q a = true) :
    (l.filter p).length ≤ (l.filter q).length := by
  induction l with
  | nil => simp
  | cons a r ih =>
    simp only [List.filter_cons]
    cases hp : p a with
    | false =>
      simp only [Bool.false_eq_true, if_false]
      split
      · simp only [List.length_cons]; omega
      · exact ih
    | true => simp [h a hp]; exact ih

theorem unvisited_mono (U v w : List Nat) (h : ∀ x ∈ v, x ∈ w) : unvisited U w ≤ unvisited U v := by
  unfold unvisited
  apply length_filter_mono
  intro a ha
  simp only [decide_eq_true_eq] at ha ⊢
  exact fun hv => ha (h a hv)

theorem unvisited_cons_le (U v : List Nat) (p : Nat) : unvisited U (p :: v) ≤ unvisited U v :=
  unvisited_mono U v (p :: v) (fun x hx => by simp [hx])

theorem unvisited_cons_lt (U v : List Nat) (p : Nat) (hp : p ∈ U) (hv : p ∉ v) :
    unvisited U (p :: v) < unvisited U v := by
  unfold unvisited
  have e : U.filter (fun q => decide (q ∉ p :: v)) = (U.filter (fun q => decide (q ∉ v))).filter (fun q => decide (q ≠ p)) := by
    rw [List.filter_filter]
    apply List.filter_congr
    intro a _
    simp only [List.mem_cons, not_or, Bool.decide_and]
  rw [e]
  apply List.length_filter_lt_length_iff_exists.mpr
  exact ⟨p, List.mem_filter.mpr ⟨hp, by simpa using hv⟩, by simp⟩

/-- post-condition of the walk: the visited set grows, and every package added has all its
    imports in the result -/
structure Post (imp : Nat → List Nat) (v v' : List Nat) : Prop where
  mono : ∀ x ∈ v, x ∈ v'
  closed : ∀ p ∈ v', p ∉ v → ∀ q ∈ imp p, q ∈ v'

mutual
theorem collect_complete (imp : Nat → List Nat) (U : List Nat) (hU : ∀ p, ∀ q ∈ imp p, q ∈ U)
    (fuel dir : Nat) (v : List Nat) (hf : unvisited U v < fuel) :
    (∀ q ∈ imp dir, q ∈ collect imp fuel dir v) ∧ Post imp v (collect imp fuel dir v) := by
  cases fuel with
  | zero => omega
  | succ f =>
    simp only [collect]
    have h := collectL_complete imp U hU f (imp dir) dir v (by omega) (fun q hq => hq)
    refine ⟨h.1, ⟨h.2.1, ?_⟩⟩
    intro p hp hpv q hq
    by_cases hpd : p = dir
    · subst hpd; exact h.1 q hq
    · exact h.2.2 p hp hpv hpd q hq
termination_by (fuel, 0)
/-- the loop over the import list `ps ⊆ imp cur`; nodes equal to `cur` are added without recursion,
    so their closedness is the caller's first conjunct: stated as `closedExcept cur` -/
theorem collectL_complete (imp : Nat → List Nat) (U : List Nat) (hU : ∀ p, ∀ q ∈ imp p, q ∈ U)
    (fuel : Nat) (ps : List Nat) (cur : Nat) (v : List Nat) (hf : unvisited U v ≤ fuel)
    (hps : ∀ q ∈ ps, q ∈ imp cur) :
    (∀ q ∈ ps, q ∈ collectL imp fuel ps cur v) ∧
    (∀ x ∈ v, x ∈ collectL imp fuel ps cur v) ∧
    (∀ p ∈ collectL imp fuel ps cur v, p ∉ v → p ≠ cur → ∀ q ∈ imp p, q ∈ collectL imp fuel ps cur v) := by
  cases ps with
  | nil =>
    simp only [collectL]
    refine ⟨?_, fun x hx => hx, fun x hx hxv => absurd hx hxv⟩
    intro q hq; cases hq
  | cons p rest =>
    have hrest : ∀ q ∈ rest, q ∈ imp cur := fun q hq => hps q (by simp [hq])
    have hpU : p ∈ U := hU cur p (hps p (by simp))
    simp only [collectL]
    split
    · next hpv =>
      have ih := collectL_complete imp U hU fuel rest cur v hf hrest
      refine ⟨?_, ih.2.1, ih.2.2⟩
      intro q hq
      rcases List.mem_cons.mp hq with h | h
      · subst h; exact ih.2.1 q hpv
      · exact ih.1 q h
    · next hpv =>
      by_cases hpc : p = cur
      · -- self import: added, not entered
        subst hpc
        simp only [ne_eq, not_true_eq_false, if_false]
        have hle : unvisited U (p :: v) ≤ fuel := Nat.le_trans (unvisited_cons_le U v p) hf
        have ih := collectL_complete imp U hU fuel rest p (p :: v) hle hrest
        refine ⟨?_, fun x hx => ih.2.1 x (by simp [hx]), ?_⟩
        · intro q hq
          rcases List.mem_cons.mp hq with h | h
          · subst h; exact ih.2.1 q (by simp)
          · exact ih.1 q h
        · intro x hx hxv hxc
          exact ih.2.2 x hx (by simp [hxv, hxc]) hxc
      · simp only [ne_eq, hpc, not_false_eq_true, if_true]
        -- recursive call on p with one package fewer to visit
        have hlt : unvisited U (p :: v) < fuel := Nat.lt_of_lt_of_le (unvisited_cons_lt U v p hpU hpv) hf
        have rc := collect_complete imp U hU fuel p (p :: v) hlt
        have hle2 : unvisited U (collect imp fuel p (p :: v)) ≤ fuel :=
          Nat.le_trans (unvisited_mono U (p :: v) _ rc.2.mono) (Nat.le_of_lt hlt)
        have ih := collectL_complete imp U hU fuel rest cur (collect imp fuel p (p :: v)) hle2 hrest
        refine ⟨?_, fun x hx => ih.2.1 x (rc.2.mono x (by simp [hx])), ?_⟩
        · intro q hq
          rcases List.mem_cons.mp hq with h | h
          · subst h; exact ih.2.1 q (rc.2.mono q (by simp))
          · exact ih.1 q h
        · intro x hx hxv hxc
          by_cases hxin : x ∈ collect imp fuel p (p :: v)
          · intro q hq
            by_cases hxp : x = p
            · subst hxp; exact ih.2.1 q (rc.1 q hq)
            · exact ih.2.1 q (rc.2.closed x hxin (by simp [hxp, hxv]) q hq)
          · exact ih.2.2 x hx hxin hxc
termination_by (fuel, ps.length + 1)
end

end GoatSpec
