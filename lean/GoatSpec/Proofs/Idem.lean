import GoatSpec.Proofs.Clean
/-! # Facts about the passes that hold for *every* text (no well-formedness) -/
namespace GoatSpec

/-- the text contains something the regexp of kind `k` can match: an insert-marker line, or a
    `k` start line followed later by an end-marker line -/
def hasM (k : Mk) : List Line → Bool
  | [] => false
  | x :: r =>
    (startsMk k x && (match k with | .insert => true | _ => r.any (startsMk .endm))) || hasM k r

theorem afterEnd_none_iff (r : List Line) : afterEnd r = none ↔ r.any (startsMk .endm) = false := by
  induction r with
  | nil => simp [afterEnd]
  | cons x t ih =>
    simp only [afterEnd, List.any_cons]
    cases h : startsMk .endm x <;> simp [h, ih]

theorem afterEnd_some_any {t r : List Line} (h : afterEnd t = some r) : t.any (startsMk .endm) = true := by
  cases ha : t.any (startsMk .endm) with
  | true => rfl
  | false => rw [(afterEnd_none_iff t).mpr ha] at h; cases h

theorem matchAt_some_hasM (k : Mk) (l rest : List Line) (h : matchAt k l = some rest) : hasM k l = true := by
  induction l with
  | nil => cases k <;> simp [matchAt, matchLine, matchBlock] at h
  | cons x t ih =>
    cases hb : isBlank x with
    | true =>
      have : matchAt k t = some rest := by
        unfold matchAt at h ⊢
        cases k <;> simp [matchLine, matchBlock, hb] at h ⊢ <;> exact h
      simp [hasM, ih this]
    | false =>
      cases hs : startsMk k x with
      | false =>
        unfold matchAt at h
        cases k <;> simp [matchLine, matchBlock, hb, hs] at h
      | true =>
        unfold matchAt at h
        cases k <;> simp only [matchLine, matchBlock, hb, hs, if_true, Bool.false_eq_true, if_false] at h <;>
          first
          | (simp [hasM, hs, afterEnd_some_any h]; done)
          | (simp [hasM, hs]; done)

theorem hasM_tail {k : Mk} {x : Line} {r : List Line} (h : hasM k (x :: r) = false) : hasM k r = false := by
  simp only [hasM, Bool.or_eq_false_iff] at h; exact h.2

/-- nothing to match ⇒ the pass is the identity and counts 0 -/
theorem pass_noM (k : Mk) (repl : List Line) (l : List Line) (h : hasM k l = false) : pass k repl l = (0, l) := by
  induction l with
  | nil => exact pass_nil k repl
  | cons x r ih =>
    have hm : matchAt k (x :: r) = none := by
      cases hm : matchAt k (x :: r) with
      | none => rfl
      | some rest => rw [matchAt_some_hasM k _ rest hm] at h; cases h
    rw [pass_cons_none k repl x r hm, ih (hasM_tail h)]

theorem pass_sublist (k : Mk) : ∀ (n : Nat) (l : List Line), l.length ≤ n → (pass k [] l).2.Sublist l := by
  intro n
  induction n with
  | zero => intro l hl; cases l with
    | nil => rw [pass_nil]; exact List.Sublist.refl _
    | cons x r => simp at hl
  | succ n ih =>
    intro l hl
    cases l with
    | nil => rw [pass_nil]; exact List.Sublist.refl _
    | cons x r =>
      cases hm : matchAt k (x :: r) with
      | none =>
        rw [pass_cons_none k [] x r hm]
        exact List.Sublist.cons_cons x (ih r (by simp at hl; omega))
      | some rest =>
        rw [pass_cons_some k [] x r rest hm]
        have hlen := matchAt_len hm
        have h1 := ih rest (by simp at hl hlen; omega)
        simp only [List.nil_append]
        -- rest is a suffix of x :: r
        have hsuf : rest.Sublist (x :: r) := by
          clear h1 ih hl hlen
          -- generic: a match returns a suffix
          have afterEnd_suf : ∀ (l r' : List Line), afterEnd l = some r' → r'.Sublist l := by
            intro l; induction l with
            | nil => intro r' h; simp [afterEnd] at h
            | cons y t iht =>
              intro r' h; simp only [afterEnd] at h
              split at h
              · cases h; exact List.sublist_cons_self y t
              · exact (iht r' h).trans (List.sublist_cons_self y t)
          have gen : ∀ (l : List Line), matchAt k l = some rest → rest.Sublist l := by
            intro l; induction l with
            | nil => intro h; cases k <;> simp [matchAt, matchLine, matchBlock] at h
            | cons y t iht =>
              intro h
              cases hb : isBlank y with
              | true =>
                have : matchAt k t = some rest := by
                  unfold matchAt at h ⊢
                  cases k <;> simp [matchLine, matchBlock, hb] at h ⊢ <;> exact h
                exact (iht this).trans (List.sublist_cons_self y t)
              | false =>
                unfold matchAt at h
                cases k <;> simp only [matchLine, matchBlock, hb, Bool.false_eq_true, if_false] at h <;>
                  split at h <;> first
                    | exact (afterEnd_suf t rest h).trans (List.sublist_cons_self y t)
                    | (cases h; exact List.sublist_cons_self _ _; done)
                    | (cases h; done)
          exact gen (x :: r) hm
        exact h1.trans hsuf

theorem any_sublist {p : Line → Bool} {a b : List Line} (h : a.Sublist b) (hb : b.any p = false) : a.any p = false := by
  rw [List.any_eq_false] at hb ⊢
  intro x hx; exact hb x (h.subset hx)

theorem hasM_sublist (k : Mk) {a b : List Line} (h : a.Sublist b) (hb : hasM k b = false) : hasM k a = false := by
  induction h with
  | slnil => exact hb
  | cons x _ ih => exact ih (hasM_tail hb)
  | cons_cons x hs ih =>
    simp only [hasM, Bool.or_eq_false_iff, Bool.and_eq_false_iff] at hb ⊢
    refine ⟨?_, ih hb.2⟩
    rcases hb.1 with h1 | h1
    · exact Or.inl h1
    · right
      cases k <;> first | exact h1 | exact any_sublist hs h1

/-- after the pass of kind `k` nothing of kind `k` can be matched any more -/
theorem pass_hasM (k : Mk) : ∀ (n : Nat) (l : List Line), l.length ≤ n → hasM k (pass k [] l).2 = false := by
  intro n
  induction n with
  | zero => intro l hl; cases l with
    | nil => rw [pass_nil]; rfl
    | cons x r => simp at hl
  | succ n ih =>
    intro l hl
    cases l with
    | nil => rw [pass_nil]; rfl
    | cons x r =>
      cases hm : matchAt k (x :: r) with
      | some rest =>
        rw [pass_cons_some k [] x r rest hm]
        have hlen := matchAt_len hm
        simpa using ih rest (by simp at hl hlen; omega)
      | none =>
        rw [pass_cons_none k [] x r hm]
        have hr := ih r (by simp at hl; omega)
        simp only [hasM, hr, Bool.or_false, Bool.and_eq_false_iff]
        cases hs : startsMk k x with
        | false => exact Or.inl rfl
        | true =>
          right
          have hnb := startsMk_not_blank hs
          unfold matchAt at hm
          cases k <;> simp only [matchLine, matchBlock, hnb, hs, if_true, Bool.false_eq_true, if_false] at hm <;>
            first
            | cases hm
            | exact any_sublist (pass_sublist _ r.length r (Nat.le_refl _)) ((afterEnd_none_iff r).mp hm)

theorem plain_hasM (k : Mk) (l : List Line) (h : l.all plain = true) : hasM k l = false := by
  induction l with
  | nil => rfl
  | cons x r ih =>
    simp only [List.all_cons, Bool.and_eq_true] at h
    simp [hasM, plain_not_starts h.1 k, ih h.2]

end GoatSpec
