import GoatSpec.Proofs.Legal
/-! # Every statement of the tree is seen by the control-statement pass (helper for the header
    clause of C03): `subL ss` lists the statements nested anywhere below a statement list —
    in bodies, else branches, clauses, init statements and inside function literals of any
    expression — and the events `ctlS` emits for each of them are events of `ctlL ss`. -/
namespace GoatSpec

mutual
def subE : Expr → List Stmt
  | .funcLit _ _ _ _ _ body => subL body
  | .call fn args => subEs fn ++ subEs args
  | .composite typ elts => subEs typ ++ subEs elts
  | .keyValue k v => subEs k ++ subEs v
  | .unary x => subEs x
  | .structType fs => subEs fs
  | .other cs => subEs cs
def subEs : List Expr → List Stmt
  | [] => []
  | e :: es => subE e ++ subEs es
/-- the statement itself and everything nested in it -/
def subS : Stmt → List Stmt
  | .simple k l e pre ent post => .simple k l e pre ent post :: (subEs pre ++ subEs ent ++ subEs post)
  | .block l e body => .block l e body :: subL body
  | .labeled l e inner => .labeled l e inner :: subS inner
  | .ifS l e init ir cr cond lb rb body els =>
    .ifS l e init ir cr cond lb rb body els :: (subL init ++ subEs cond ++ subL body ++ subL els)
  | .forS l e init ir cr pr cond post lb rb body =>
    .forS l e init ir cr pr cond post lb rb body :: (subL init ++ subEs cond ++ subL post ++ subL body)
  | .rangeS l e kr vr xr kvx lb rb body => .rangeS l e kr vr xr kvx lb rb body :: (subEs kvx ++ subL body)
  | .switchS l e init ir tr tag lb rb cl => .switchS l e init ir tr tag lb rb cl :: (subL init ++ subEs tag ++ subL cl)
  | .typeSwitchS l e init ir ar asg lb rb cl => .typeSwitchS l e init ir ar asg lb rb cl :: (subL init ++ subL asg ++ subL cl)
  | .selectS l e lb rb cl => .selectS l e lb rb cl :: subL cl
  | .caseC l e lr list colon body => .caseC l e lr list colon body :: (subEs list ++ subL body)
  | .commC l e cr comm colon body => .commC l e cr comm colon body :: (subL comm ++ subL body)
def subL : List Stmt → List Stmt
  | [] => []
  | s :: ss => subS s ++ subL ss
end

theorem subS_self (s : Stmt) : s ∈ subS s := by
  cases s <;> simp [subS]

mutual
theorem ctl_subE (ch : Nat → Bool) (e : Expr) : ∀ t ∈ subE e, ∀ ev ∈ ctlS ch t, ev ∈ ctlE ch e := by
  cases e with
  | funcLit pl el lb rb first body =>
    intro t ht ev hev; simp only [subE] at ht; simp only [ctlE]; exact ctl_subL ch body t ht ev hev
  | call fn args =>
    intro t ht ev hev; simp only [subE] at ht; simp only [ctlE]
    rcases List.mem_append.mp ht with ht | ht
    · exact List.mem_append_left _ (ctl_subEs ch fn t ht ev hev)
    · exact List.mem_append_right _ (ctl_subEs ch args t ht ev hev)
  | composite typ elts =>
    intro t ht ev hev; simp only [subE] at ht; simp only [ctlE]
    rcases List.mem_append.mp ht with ht | ht
    · exact List.mem_append_left _ (ctl_subEs ch typ t ht ev hev)
    · exact List.mem_append_right _ (ctl_subEs ch elts t ht ev hev)
  | keyValue k v =>
    intro t ht ev hev; simp only [subE] at ht; simp only [ctlE]
    rcases List.mem_append.mp ht with ht | ht
    · exact List.mem_append_left _ (ctl_subEs ch k t ht ev hev)
    · exact List.mem_append_right _ (ctl_subEs ch v t ht ev hev)
  | unary x => intro t ht ev hev; simp only [subE] at ht; simp only [ctlE]; exact ctl_subEs ch x t ht ev hev
  | structType fs => intro t ht ev hev; simp only [subE] at ht; simp only [ctlE]; exact ctl_subEs ch fs t ht ev hev
  | other cs => intro t ht ev hev; simp only [subE] at ht; simp only [ctlE]; exact ctl_subEs ch cs t ht ev hev
theorem ctl_subEs (ch : Nat → Bool) (es : List Expr) : ∀ t ∈ subEs es, ∀ ev ∈ ctlS ch t, ev ∈ ctlEs ch es := by
  cases es with
  | nil => intro t ht; simp [subEs] at ht
  | cons e r =>
    intro t ht ev hev; simp only [subEs] at ht; simp only [ctlEs]
    rcases List.mem_append.mp ht with ht | ht
    · exact List.mem_append_left _ (ctl_subE ch e t ht ev hev)
    · exact List.mem_append_right _ (ctl_subEs ch r t ht ev hev)
theorem ctl_subS (ch : Nat → Bool) (s : Stmt) : ∀ t ∈ subS s, ∀ ev ∈ ctlS ch t, ev ∈ ctlS ch s := by
  cases s with
  | simple k ln e pre ent post =>
    intro t ht ev hev; simp only [subS] at ht
    rcases List.mem_cons.mp ht with rfl | ht
    · exact hev
    · simp only [ctlS]
      rcases List.mem_append.mp ht with ht | ht
      · rcases List.mem_append.mp ht with ht | ht
        · exact List.mem_append_left _ (List.mem_append_left _ (ctl_subEs ch pre t ht ev hev))
        · exact List.mem_append_left _ (List.mem_append_right _ (ctl_subEs ch ent t ht ev hev))
      · exact List.mem_append_right _ (ctl_subEs ch post t ht ev hev)
  | block ln e body =>
    intro t ht ev hev; simp only [subS] at ht
    rcases List.mem_cons.mp ht with rfl | ht
    · exact hev
    · simp only [ctlS]; exact ctl_subL ch body t ht ev hev
  | labeled ln e inner =>
    intro t ht ev hev; simp only [subS] at ht
    rcases List.mem_cons.mp ht with rfl | ht
    · exact hev
    · simp only [ctlS]; exact ctl_subS ch inner t ht ev hev
  | ifS ln e init ir cr cond lb rb body els =>
    intro t ht ev hev; simp only [subS] at ht
    rcases List.mem_cons.mp ht with rfl | ht
    · exact hev
    · rw [ctlS_if]
      rcases List.mem_append.mp ht with ht | ht
      · rcases List.mem_append.mp ht with ht | ht
        · rcases List.mem_append.mp ht with ht | ht
          · exact List.mem_append_left _ (List.mem_append_left _ (List.mem_append_left _ (List.mem_append_right _ (ctl_subL ch init t ht ev hev))))
          · exact List.mem_append_left _ (List.mem_append_left _ (List.mem_append_right _ (ctl_subEs ch cond t ht ev hev)))
        · exact List.mem_append_left _ (List.mem_append_right _ (ctl_subL ch body t ht ev hev))
      · exact List.mem_append_right _ (ctl_subL ch els t ht ev hev)
  | forS ln e init ir cr pr cond post lb rb body =>
    intro t ht ev hev; simp only [subS] at ht
    rcases List.mem_cons.mp ht with rfl | ht
    · exact hev
    · simp only [ctlS]
      rcases List.mem_append.mp ht with ht | ht
      · rcases List.mem_append.mp ht with ht | ht
        · rcases List.mem_append.mp ht with ht | ht
          · exact List.mem_append_left _ (List.mem_append_left _ (List.mem_append_left _ (List.mem_append_right _ (ctl_subL ch init t ht ev hev))))
          · exact List.mem_append_left _ (List.mem_append_left _ (List.mem_append_right _ (ctl_subEs ch cond t ht ev hev)))
        · exact List.mem_append_left _ (List.mem_append_right _ (ctl_subL ch post t ht ev hev))
      · exact List.mem_append_right _ (ctl_subL ch body t ht ev hev)
  | rangeS ln e kr vr xr kvx lb rb body =>
    intro t ht ev hev; simp only [subS] at ht
    rcases List.mem_cons.mp ht with rfl | ht
    · exact hev
    · simp only [ctlS]
      rcases List.mem_append.mp ht with ht | ht
      · exact List.mem_append_left _ (List.mem_append_right _ (ctl_subEs ch kvx t ht ev hev))
      · exact List.mem_append_right _ (ctl_subL ch body t ht ev hev)
  | switchS ln e init ir tr tag lb rb cl =>
    intro t ht ev hev; simp only [subS] at ht
    rcases List.mem_cons.mp ht with rfl | ht
    · exact hev
    · simp only [ctlS]
      rcases List.mem_append.mp ht with ht | ht
      · rcases List.mem_append.mp ht with ht | ht
        · exact List.mem_append_left _ (List.mem_append_left _ (List.mem_append_right _ (ctl_subL ch init t ht ev hev)))
        · exact List.mem_append_left _ (List.mem_append_right _ (ctl_subEs ch tag t ht ev hev))
      · exact List.mem_append_right _ (ctl_subL ch cl t ht ev hev)
  | typeSwitchS ln e init ir ar asg lb rb cl =>
    intro t ht ev hev; simp only [subS] at ht
    rcases List.mem_cons.mp ht with rfl | ht
    · exact hev
    · simp only [ctlS]
      rcases List.mem_append.mp ht with ht | ht
      · rcases List.mem_append.mp ht with ht | ht
        · exact List.mem_append_left _ (List.mem_append_left _ (List.mem_append_right _ (ctl_subL ch init t ht ev hev)))
        · exact List.mem_append_left _ (List.mem_append_right _ (ctl_subL ch asg t ht ev hev))
      · exact List.mem_append_right _ (ctl_subL ch cl t ht ev hev)
  | selectS ln e lb rb cl =>
    intro t ht ev hev; simp only [subS] at ht
    rcases List.mem_cons.mp ht with rfl | ht
    · exact hev
    · simp only [ctlS]; exact ctl_subL ch cl t ht ev hev
  | caseC ln e lr list colon body =>
    intro t ht ev hev; simp only [subS] at ht
    rcases List.mem_cons.mp ht with rfl | ht
    · exact hev
    · simp only [ctlS]
      rcases List.mem_append.mp ht with ht | ht
      · exact List.mem_append_left _ (List.mem_append_right _ (ctl_subEs ch list t ht ev hev))
      · exact List.mem_append_right _ (ctl_subL ch body t ht ev hev)
  | commC ln e cr comm colon body =>
    intro t ht ev hev; simp only [subS] at ht
    rcases List.mem_cons.mp ht with rfl | ht
    · exact hev
    · simp only [ctlS]
      rcases List.mem_append.mp ht with ht | ht
      · exact List.mem_append_left _ (List.mem_append_right _ (ctl_subL ch comm t ht ev hev))
      · exact List.mem_append_right _ (ctl_subL ch body t ht ev hev)
theorem ctl_subL (ch : Nat → Bool) (ss : List Stmt) : ∀ t ∈ subL ss, ∀ ev ∈ ctlS ch t, ev ∈ ctlL ch ss := by
  cases ss with
  | nil => intro t ht; simp [subL] at ht
  | cons s r =>
    intro t ht ev hev; simp only [subL] at ht; simp only [ctlL]
    rcases List.mem_append.mp ht with ht | ht
    · exact List.mem_append_left _ (ctl_subS ch s t ht ev hev)
    · exact List.mem_append_right _ (ctl_subL ch r t ht ev hev)
end

/-- the skip loop terminates normally when a line that is not comment-like lies ahead -/
theorem skipComments_exists (env : Env) : ∀ (d l : Nat) (fuel : Nat), d < fuel →
    env.isComment (l + d) = .ok false → ∃ r, skipComments env fuel l = .ok r := by
  intro d
  induction d with
  | zero =>
    intro l fuel hf hj
    obtain ⟨k, rfl⟩ : ∃ k, fuel = k + 1 := ⟨fuel - 1, by omega⟩
    exact ⟨l, skipComments_id env k l (by simpa using hj)⟩
  | succ n ih =>
    intro l fuel hf hj
    obtain ⟨k, rfl⟩ : ∃ k, fuel = k + 1 := ⟨fuel - 1, by omega⟩
    simp only [skipComments]
    -- line l is in range because l + (n+1) is
    have hin : l < env.comments.size := by
      unfold Env.isComment at hj
      split at hj
      · omega
      · cases hj
    have hl : env.isComment l = .ok env.comments[l] := by
      unfold Env.isComment; simp [hin]
    rw [hl]
    cases env.comments[l] with
    | true =>
      simp only
      have : l + 1 + n = l + (n + 1) := by omega
      exact ih (l + 1) k (by omega) (by rw [this]; exact hj)
    | false => exact ⟨l, rfl⟩

end GoatSpec
