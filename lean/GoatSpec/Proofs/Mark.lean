import GoatSpec.Mark
/-! # Invariants of the marking fold (`runEvents`) — helper lemmas for C09 / C03 / C01 -/
namespace GoatSpec

/-- `skipComments` returns a line that is not comment-like, at or after the start -/
theorem skipComments_spec (env : Env) : ∀ (fuel l r : Nat), skipComments env fuel l = .ok r →
    env.isComment r = .ok false ∧ l ≤ r := by
  intro fuel
  induction fuel with
  | zero => intro l r h; simp [skipComments] at h
  | succ f ih =>
    intro l r h
    simp only [skipComments] at h
    split at h
    · cases h
    · have := ih (l+1) r h; exact ⟨this.1, by omega⟩
    · next hc => cases h; exact ⟨hc, Nat.le_refl _⟩

/-- a line that is not comment-like is returned as is -/
theorem skipComments_id (env : Env) (fuel l : Nat) (h : env.isComment l = .ok false) :
    skipComments env (fuel+1) l = .ok l := by
  simp [skipComments, h]

/-- invariant of the fold: what every recorded multi-line position satisfies -/
structure Inv (env : Env) (st : MState) : Prop where
  nodup : st.multi.Nodup
  notComment : ∀ l ∈ st.multi, env.isComment l = .ok false
  inFunc : ∀ l ∈ st.multi, searchScopes env.funcs l ≠ 0
  count : st.count = st.multi.length + st.singles.length

theorem Inv.init (env : Env) : Inv env {} := by
  refine ⟨List.nodup_nil, ?_, ?_, rfl⟩ <;> intro l h <;> cases h

/-- `markInsert` keeps the invariant, keeps earlier positions, and leaves the other fields alone -/
theorem markInsert_spec (env : Env) (st st' : MState) (line : Nat) (hinv : Inv env st)
    (h : markInsert env st line = .ok st') :
    Inv env st' ∧ (∀ l ∈ st.multi, l ∈ st'.multi) ∧ st'.singles = st.singles
      ∧ st'.visitedScopes = st.visitedScopes ∧ st'.patch = st.patch
      ∧ (∀ l ∈ st'.multi, l ∈ st.multi ∨
            (skipComments env (env.comments.size + 1) line = .ok l)) := by
  unfold markInsert at h
  split at h
  · cases h
  · next l hl =>
    have hs := skipComments_spec env _ _ _ hl
    split at h
    · cases h; exact ⟨hinv, fun _ h => h, rfl, rfl, rfl, fun l h => Or.inl h⟩
    · split at h
      · cases h; exact ⟨hinv, fun _ h => h, rfl, rfl, rfl, fun l h => Or.inl h⟩
      · next hsc hcont =>
        cases h
        refine ⟨⟨?_, ?_, ?_, ?_⟩, ?_, rfl, rfl, rfl, ?_⟩
        · simp only [List.nodup_append, hinv.nodup, List.nodup_cons, List.not_mem_nil, not_false_eq_true,
            List.nodup_nil, and_self, true_and]
          intro a ha b hb
          simp at hb; subst hb
          intro hab; subst hab
          simp [List.contains_iff_mem] at hcont
          exact hcont ha
        · intro x hx
          rcases List.mem_append.mp hx with h1 | h1
          · exact hinv.notComment x h1
          · simp at h1; subst h1; exact hs.1
        · intro x hx
          rcases List.mem_append.mp hx with h1 | h1
          · exact hinv.inFunc x h1
          · simp at h1; subst h1
            intro h0; simp [h0] at hsc
        · simp [hinv.count]; omega
        · intro x hx; exact List.mem_append.mpr (Or.inl hx)
        · intro x hx
          rcases List.mem_append.mp hx with h1 | h1
          · exact Or.inl h1
          · simp at h1; subst h1; exact Or.inr hl

/-- when `markInsert` succeeds on a line that is not comment-like and lies inside a function,
    that line is a position afterwards -/
theorem markInsert_mem (env : Env) (st st' : MState) (line : Nat)
    (hc : env.isComment line = .ok false) (hf : searchScopes env.funcs line ≠ 0)
    (h : markInsert env st line = .ok st') : line ∈ st'.multi := by
  unfold markInsert at h
  rw [skipComments_id env _ line hc] at h
  simp only at h
  split at h
  · next h0 => simp at h0; exact absurd h0 hf
  · split at h
    · next hcont => cases h; simpa [List.contains_iff_mem] using hcont
    · cases h; simp

/-- `forceMark` keeps the invariant and earlier positions; singles untouched -/
theorem forceMark_spec (env : Env) (st st' : MState) (line : Nat) (hinv : Inv env st)
    (h : forceMark env st line = .ok st') :
    Inv env st' ∧ (∀ l ∈ st.multi, l ∈ st'.multi) ∧ st'.singles = st.singles := by
  unfold forceMark at h
  split at h
  all_goals try dsimp only at h
  · -- line
    have := markInsert_spec env st st' line hinv h
    exact ⟨this.1, this.2.1, this.2.2.1⟩
  · -- func
    split at h
    · cases h; exact ⟨hinv, fun _ h => h, rfl⟩
    · split at h
      · have := markInsert_spec env st st' _ hinv h
        exact ⟨this.1, this.2.1, this.2.2.1⟩
      · cases h
  · -- scope
    split at h
    · cases h; exact ⟨hinv, fun _ h => h, rfl⟩
    · split at h
      · cases h; exact ⟨hinv, fun _ h => h, rfl⟩
      · next t ht hv =>
        have hinv' : Inv env { st with visitedScopes := t.search line :: st.visitedScopes } :=
          ⟨hinv.nodup, hinv.notComment, hinv.inFunc, hinv.count⟩
        have := markInsert_spec env _ st' line hinv' h
        exact ⟨this.1, this.2.1, this.2.2.1⟩
  · -- patch
    split at h
    · cases h; exact ⟨hinv, fun _ h => h, rfl⟩
    · next t ht =>
      split at h
      · cases h
      · next ps hps =>
        -- st1: patch table possibly extended; the other fields equal st's
        generalize hst1 : (if (List.lookup (TScope.search line t) st.patch).isNone = true then
            ({ multi := st.multi, singles := st.singles, count := st.count, visitedScopes := st.visitedScopes,
               patch := (TScope.search line t, ps) :: st.patch } : MState) else st) = st1 at h
        have h1 : st1.multi = st.multi ∧ st1.singles = st.singles ∧ st1.count = st.count := by
          rw [← hst1]; split <;> simp
        have hinv1 : Inv env st1 :=
          ⟨h1.1 ▸ hinv.nodup, by rw [h1.1]; exact hinv.notComment, by rw [h1.1]; exact hinv.inFunc,
           by rw [h1.1, h1.2.1, h1.2.2]; exact hinv.count⟩
        split at h
        · cases h
        · cases h; exact ⟨hinv1, by rw [h1.1]; exact fun _ h => h, h1.2.1⟩
        · split at h
          · next st2 ps2 hm hpm =>
            cases h
            have := markInsert_spec env st1 st2 line hinv1 hm
            refine ⟨⟨this.1.nodup, this.1.notComment, this.1.inFunc, this.1.count⟩, ?_, ?_⟩
            · intro l hl; exact this.2.1 l (h1.1 ▸ hl)
            · simpa [h1.2.1] using this.2.2.1
          · cases h
          · cases h

/-- one event keeps the invariant and earlier positions -/
theorem stepEv_spec (env : Env) (st st' : MState) (ev : Ev) (hinv : Inv env st)
    (h : stepEv env st ev = .ok st') :
    Inv env st' ∧ (∀ l ∈ st.multi, l ∈ st'.multi) ∧ (∀ p ∈ st.singles, p ∈ st'.singles) := by
  cases ev with
  | check l =>
    simp only [stepEv] at h
    split at h
    · cases h
    · cases h; exact ⟨hinv, fun _ h => h, fun _ h => h⟩
    · have := forceMark_spec env st st' l hinv h
      exact ⟨this.1, this.2.1, by rw [this.2.2]; exact fun _ h => h⟩
  | force l =>
    have := forceMark_spec env st st' l hinv h
    exact ⟨this.1, this.2.1, by rw [this.2.2]; exact fun _ h => h⟩
  | single l c =>
    simp only [stepEv] at h
    split at h
    · cases h
    · cases h; exact ⟨hinv, fun _ h => h, fun _ h => h⟩
    · cases h
      refine ⟨⟨hinv.nodup, hinv.notComment, hinv.inFunc, ?_⟩, fun _ h => h, ?_⟩
      · simp [hinv.count]; omega
      · intro p hp; exact List.mem_append.mpr (Or.inl hp)

theorem foldlM_ok_cons {α β ε : Type} (f : β → α → Except ε β) (b : β) (a : α) (l : List α) (r : β) :
    (a :: l).foldlM f b = .ok r ↔ ∃ b', f b a = .ok b' ∧ l.foldlM f b' = .ok r := by
  simp only [List.foldlM_cons]
  cases hf : f b a with
  | error e => simp [bind, Except.bind]
  | ok b' => simp [bind, Except.bind]

/-- the whole fold from any state satisfying the invariant -/
theorem runFrom_spec (env : Env) (evs : List Ev) : ∀ (st st' : MState), Inv env st →
    evs.foldlM (stepEv env) st = .ok st' →
    Inv env st' ∧ (∀ l ∈ st.multi, l ∈ st'.multi) ∧ (∀ p ∈ st.singles, p ∈ st'.singles) := by
  induction evs with
  | nil => intro st st' hinv h; simp [pure, Except.pure] at h; cases h; exact ⟨hinv, fun _ h => h, fun _ h => h⟩
  | cons ev rest ih =>
    intro st st' hinv h
    obtain ⟨b', h1, h2⟩ := (foldlM_ok_cons _ _ _ _ _).mp h
    have s1 := stepEv_spec env st b' ev hinv h1
    have s2 := ih b' st' s1.1 h2
    exact ⟨s2.1, fun l hl => s2.2.1 l (s1.2.1 l hl), fun p hp => s2.2.2 p (s1.2.2 p hp)⟩

theorem runEvents_inv (env : Env) (evs : List Ev) (st : MState) (h : runEvents env evs = .ok st) :
    Inv env st := (runFrom_spec env evs {} st (Inv.init env) h).1

end GoatSpec
