import GoatSpec.Proofs.Mono
import GoatSpec.Coherence
/-! # func ≤ scope: the last link of the granularity chain of C09
    (count(line) ≥ count(patch) ≥ count(scope) ≥ count(func)).

Unlike the other two links this one is not an inclusion of positions (a func position is the
start of the function, a scope position the first changed statement of a block): it is a
counting argument. Every function that receives its block at func granularity has an *active*
event line (a changed check line or a forced line) inside it; at scope granularity that line
opens a scope key, every key is opened once, and every opened key yields a position of its own.
The argument needs the two scope structures of the environment (`funcs`, `trees`) to be
coherent on the active lines; that is the decidable hypothesis `cohOK`, evaluated by the
harness on every judged input (`judge:coh`). -/
namespace GoatSpec

theorem freshPair_of_selfKey (env : Env) (l1 l2 : Nat) (h1 : selfKey env l1 = true) (h2 : selfKey env l2 = true) :
    freshPair env l1 l2 = true := by
  unfold freshPair
  unfold selfKey at h1 h2
  split
  · next r1 r2 e1 e2 =>
    rw [e1] at h1; rw [e2] at h2
    simp only [beq_iff_eq] at h1 h2
    by_cases h : r1 = r2
    · subst h; simp [lineFunc, ← h1, ← h2]
    · simp [h]
  · rfl

theorem cohOK_spec (env : Env) (evs : List Ev) (h : cohOK env evs = true) :
    (∀ l ∈ activeLines env evs, cohLine env l = true) ∧
    (∀ l1 ∈ activeLines env evs, ∀ l2 ∈ activeLines env evs, freshPair env l1 l2 = true) := by
  simp only [cohOK, Bool.and_eq_true, Bool.or_eq_true, List.all_eq_true] at h
  refine ⟨h.1, ?_⟩
  intro l1 h1 l2 h2
  rcases h.2 with hs | hp
  · exact freshPair_of_selfKey env l1 l2 (hs l1 h1) (hs l2 h2)
  · exact hp l1 h1 l2 h2

theorem withGran_markInsert (env : Env) (g : Gran) (st : MState) (l : Nat) :
    markInsert (env.withGran g) st l = markInsert env st l := by
  unfold markInsert
  rw [show (env.withGran g).comments = env.comments from rfl, show (env.withGran g).funcs = env.funcs from rfl,
    withGran_skip]

/-- the position a function index receives at func granularity -/
def funcPos (env : Env) (i : Nat) : Option Nat :=
  match env.funcs[i]? with
  | some (s, _) => (skipOf env (s + 1)).toOption
  | none => none

/-- simulation relation between the func run `sF` and the scope run `sS` over the same events;
    `A` is the set of active lines of the whole event list -/
structure FSRel (env : Env) (A : List Nat) (sF sS : MState) : Prop where
  /-- every func position is the position of the function of an opened scope key -/
  funcs : ∀ p ∈ sF.multi, ∃ k ∈ sS.visitedScopes, funcPos env (keyFunc env k) = some p
  /-- every opened key was opened by an active line whose insert position is a scope position -/
  keys : ∀ k ∈ sS.visitedScopes, ∃ l ∈ A, keyOf env l = some k ∧ ∃ q ∈ sS.multi, skipOf env l = .ok q
  singles : sF.singles = sS.singles

theorem FSRel.init (env : Env) (A : List Nat) : FSRel env A {} {} :=
  ⟨(by intro p hp; cases hp), (by intro p hp; cases hp), rfl⟩

/-- one active line, both runs -/
theorem force_func_scope (env : Env) (A : List Nat) (sF sF' sS sS' : MState) (l : Nat)
    (hl : l ∈ A) (hcoh : cohLine env l = true)
    (hiF : Inv env sF) (hiS : Inv env sS)
    (hF : forceMark (env.withGran .func) sF l = .ok sF') (hS : forceMark (env.withGran .scope) sS l = .ok sS')
    (hJ : FSRel env A sF sS) : FSRel env A sF' sS' := by
  simp only [forceMark, Env.withGran] at hF hS
  -- scope side first
  cases ht : searchTrees env.trees l with
  | none =>
    -- no track scope: by coherence the line is in no function, the func run does nothing either
    rw [ht] at hS; simp only at hS; cases hS
    have hk : keyOf env l = none := by simp [keyOf, ht]
    simp only [cohLine, hk, beq_iff_eq] at hcoh
    simp only [hcoh, beq_self_eq_true, ↓reduceIte] at hF
    cases hF
    exact hJ
  | some t =>
    rw [ht] at hS; simp only at hS
    have hk : keyOf env l = some (t.search l) := by simp [keyOf, ht]
    simp only [cohLine, hk, Bool.and_eq_true, beq_iff_eq] at hcoh
    obtain ⟨hkf, hin⟩ := hcoh
    -- the key is opened after the step, and the relation on the scope side is kept
    have hscope : t.search l ∈ sS'.visitedScopes ∧ (∀ k ∈ sS.visitedScopes, k ∈ sS'.visitedScopes) ∧
        (∀ k ∈ sS'.visitedScopes, ∃ l0 ∈ A, keyOf env l0 = some k ∧ ∃ q ∈ sS'.multi, skipOf env l0 = .ok q) ∧
        sS'.singles = sS.singles := by
      split at hS
      · next hv =>
        cases hS
        exact ⟨by simpa [List.contains_iff_mem] using hv, fun _ h => h, hJ.keys, rfl⟩
      · next hv =>
        have hmi : markInsert env { sS with visitedScopes := t.search l :: sS.visitedScopes } l = .ok sS' := by
          have := withGran_markInsert env .scope { sS with visitedScopes := t.search l :: sS.visitedScopes } l
          simp only [Env.withGran] at this
          rw [← this]; exact hS
        have hinv' : Inv env { sS with visitedScopes := t.search l :: sS.visitedScopes } :=
          ⟨hiS.nodup, hiS.notComment, hiS.inFunc, hiS.count⟩
        have sp := markInsert_spec env _ sS' l hinv' hmi
        have hvs : sS'.visitedScopes = t.search l :: sS.visitedScopes := sp.2.2.2.1
        -- the insert position of `l` is a scope position afterwards
        have hq : ∃ q ∈ sS'.multi, skipOf env l = .ok q := by
          cases hs : skipComments env (env.comments.size + 1) l with
          | error e =>
            unfold markInsert at hmi; rw [hs] at hmi; cases hmi
          | ok r =>
            have hs' : skipOf env l = .ok r := hs
            rw [hs'] at hin; simp only [bne_iff_ne, ne_eq] at hin
            exact ⟨r, markInsert_mem_skip env _ sS' l r hs hin hmi, hs'⟩
        refine ⟨by rw [hvs]; exact List.mem_cons_self, fun k hk' => by rw [hvs]; exact List.mem_cons_of_mem _ hk', ?_,
          sp.2.2.1⟩
        intro k hk'
        rw [hvs] at hk'
        rcases List.mem_cons.mp hk' with h1 | h1
        · subst h1; exact ⟨l, hl, hk, hq⟩
        · obtain ⟨l0, hl0, hk0, q, hq0, hs0⟩ := hJ.keys k h1
          exact ⟨l0, hl0, hk0, q, sp.2.1 q hq0, hs0⟩
    obtain ⟨hkin, hmono, hkeys, hsingS⟩ := hscope
    -- func side
    have hfunc : (∀ p ∈ sF'.multi, p ∈ sF.multi ∨ funcPos env (searchScopes env.funcs l) = some p) ∧
        sF'.singles = sF.singles := by
      by_cases h0 : searchScopes env.funcs l = 0
      · simp only [h0, beq_self_eq_true, ↓reduceIte] at hF
        cases hF; exact ⟨fun p hp => Or.inl hp, rfl⟩
      · simp only [beq_iff_eq, h0, ↓reduceIte] at hF
        cases hfs : env.funcs[searchScopes env.funcs l]? with
        | none => rw [hfs] at hF; cases hF
        | some se =>
          obtain ⟨s, e⟩ := se
          rw [hfs] at hF; simp only at hF
          have hmi : markInsert env sF (s + 1) = .ok sF' := by
            have := withGran_markInsert env .func sF (s + 1)
            simp only [Env.withGran] at this
            rw [← this]; exact hF
          have sp := markInsert_spec env sF sF' (s + 1) hiF hmi
          refine ⟨?_, sp.2.2.1⟩
          intro p hp
          rcases sp.2.2.2.2.2 p hp with h1 | h1
          · exact Or.inl h1
          · right
            simp only [funcPos, hfs, skipOf, h1, Except.toOption]
    refine ⟨?_, hkeys, by rw [hfunc.2, hsingS, hJ.singles]⟩
    intro p hp
    rcases hfunc.1 p hp with h1 | h1
    · obtain ⟨k, hk1, hk2⟩ := hJ.funcs p h1
      exact ⟨k, hmono k hk1, hk2⟩
    · exact ⟨t.search l, hkin, by rw [hkf]; exact h1⟩

theorem activeLines_mem_check (env : Env) (evs : List Ev) (l : Nat) (h : Ev.check l ∈ evs)
    (hc : env.isChanged l = .ok true) : l ∈ activeLines env evs := by
  have hg : env.changed.getD l false = true := by
    unfold Env.isChanged at hc
    split at hc
    · next hlt => simp only [Except.ok.injEq] at hc; simp [Array.getD, hlt, hc]
    · cases hc
  induction evs with
  | nil => cases h
  | cons ev r ih =>
    rcases List.mem_cons.mp h with h1 | h1
    · subst h1; simp [activeLines, hg]
    · have := ih h1
      cases ev with
      | check l' => simp only [activeLines]; split <;> simp [this]
      | force l' => simp [activeLines, this]
      | single l' c => simpa [activeLines] using this

theorem activeLines_mem_force (env : Env) (evs : List Ev) (l : Nat) (h : Ev.force l ∈ evs) :
    l ∈ activeLines env evs := by
  induction evs with
  | nil => cases h
  | cons ev r ih =>
    rcases List.mem_cons.mp h with h1 | h1
    · subst h1; simp [activeLines]
    · have := ih h1
      cases ev with
      | check l' => simp only [activeLines]; split <;> simp [this]
      | force l' => simp [activeLines, this]
      | single l' c => simpa [activeLines] using this

theorem inv_withGran (env : Env) (g : Gran) (st : MState) (h : Inv (env.withGran g) st) : Inv env st :=
  ⟨h.nodup, h.notComment, h.inFunc, h.count⟩

/-- one event, both runs -/
theorem step_func_scope (env : Env) (A : List Nat) (all : List Ev) (hA : A = activeLines env all)
    (hcoh : ∀ l ∈ A, cohLine env l = true)
    (sF sF' sS sS' : MState) (ev : Ev) (hev : ev ∈ all)
    (hiF : Inv (env.withGran .func) sF) (hiS : Inv (env.withGran .scope) sS)
    (hF : stepEv (env.withGran .func) sF ev = .ok sF') (hS : stepEv (env.withGran .scope) sS ev = .ok sS')
    (hJ : FSRel env A sF sS) : FSRel env A sF' sS' := by
  cases ev with
  | force l =>
    have hl : l ∈ A := by rw [hA]; exact activeLines_mem_force env all l hev
    exact force_func_scope env A sF sF' sS sS' l hl (hcoh l hl)
      (inv_withGran _ _ _ hiF) (inv_withGran _ _ _ hiS) hF hS hJ
  | check l =>
    simp only [stepEv, withGran_isChanged] at hF hS
    cases hch : env.isChanged l with
    | error e => simp [hch] at hF
    | ok b =>
      cases b with
      | false => simp [hch] at hF hS; subst hF; subst hS; exact hJ
      | true =>
        simp [hch] at hF hS
        have hl : l ∈ A := by rw [hA]; exact activeLines_mem_check env all l hev hch
        exact force_func_scope env A sF sF' sS sS' l hl (hcoh l hl)
          (inv_withGran _ _ _ hiF) (inv_withGran _ _ _ hiS) hF hS hJ
  | single l c =>
    simp only [stepEv, withGran_isChanged] at hF hS
    cases hch : env.isChanged l with
    | error e => simp [hch] at hF
    | ok b =>
      cases b with
      | false => simp [hch] at hF hS; subst hF; subst hS; exact hJ
      | true =>
        simp [hch] at hF hS; subst hF; subst hS
        exact ⟨hJ.funcs, hJ.keys, by simp [hJ.singles]⟩

theorem run_func_scope (env : Env) (A : List Nat) (all : List Ev) (hA : A = activeLines env all)
    (hcoh : ∀ l ∈ A, cohLine env l = true)
    (evs : List Ev) : (∀ ev ∈ evs, ev ∈ all) →
    ∀ (sF sF' sS sS' : MState), Inv (env.withGran .func) sF → Inv (env.withGran .scope) sS →
      evs.foldlM (stepEv (env.withGran .func)) sF = .ok sF' → evs.foldlM (stepEv (env.withGran .scope)) sS = .ok sS' →
      FSRel env A sF sS → FSRel env A sF' sS' := by
  induction evs with
  | nil =>
    intro _ sF sF' sS sS' _ _ hF hS hJ
    simp [pure, Except.pure] at hF hS; subst hF; subst hS; exact hJ
  | cons ev rest ih =>
    intro hsub sF sF' sS sS' hiF hiS hF hS hJ
    obtain ⟨f1, hf1, hf2⟩ := (foldlM_ok_cons _ _ _ _ _).mp hF
    obtain ⟨s1, hs1, hs2⟩ := (foldlM_ok_cons _ _ _ _ _).mp hS
    have s := step_func_scope env A all hA hcoh sF f1 sS s1 ev (hsub ev List.mem_cons_self) hiF hiS hf1 hs1 hJ
    exact ih (fun e he => hsub e (List.mem_cons_of_mem _ he)) f1 sF' s1 sS'
      (stepEv_spec _ sF f1 ev hiF hf1).1 (stepEv_spec _ sS s1 ev hiS hs1).1 hf2 hs2 s

/-- counting: a duplicate-free list `ps`, every member related to a member of `qs` by a relation
    under which a member of `qs` determines its partner, is no longer than `qs` -/
theorem length_le_of_rel {α β : Type} [DecidableEq α] (R : β → α → Prop) :
    ∀ (ps : List β) (qs : List α), ps.Nodup → (∀ p ∈ ps, ∃ q ∈ qs, R p q) →
      (∀ p1 p2 q, R p1 q → R p2 q → p1 = p2) → ps.length ≤ qs.length := by
  intro ps
  induction ps with
  | nil => intro qs _ _ _; simp
  | cons p ps ih =>
    intro qs hn htot hinj
    obtain ⟨q, hq, hR⟩ := htot p List.mem_cons_self
    have hn' := List.nodup_cons.mp hn
    have h1 : ps.length ≤ (qs.erase q).length := by
      apply ih (qs.erase q) hn'.2 _ hinj
      intro p' hp'
      obtain ⟨q', hq', hR'⟩ := htot p' (List.mem_cons_of_mem _ hp')
      refine ⟨q', ?_, hR'⟩
      have hne : q' ≠ q := by
        intro he; subst he
        have := hinj p p' q' hR hR'
        subst this
        exact hn'.1 hp'
      exact (List.mem_erase_of_ne hne).mpr hq'
    have h2 : (qs.erase q).length = qs.length - 1 := List.length_erase_of_mem hq
    have h3 : 0 < qs.length := List.length_pos_of_mem hq
    simp only [List.length_cons]
    omega

/-! ## the runs at line and func granularity do not look at the track-scope trees -/

theorem skip_env_irrel (g : Gran) (n1 n2 : Nat) (ch cm : Array Bool) (fs : List (Nat × Nat)) (t1 t2 : List TScope) :
    ∀ (fuel l : Nat), skipComments ⟨g, n1, ch, cm, fs, t1⟩ fuel l = skipComments ⟨g, n2, ch, cm, fs, t2⟩ fuel l := by
  intro fuel
  induction fuel with
  | zero => intro l; rfl
  | succ k ih =>
    intro l
    simp only [skipComments]
    have : Env.isComment ⟨g, n1, ch, cm, fs, t1⟩ l = Env.isComment ⟨g, n2, ch, cm, fs, t2⟩ l := rfl
    rw [this]
    split <;> simp_all

theorem markInsert_env_irrel (g : Gran) (n1 n2 : Nat) (ch cm : Array Bool) (fs : List (Nat × Nat)) (t1 t2 : List TScope)
    (st : MState) (l : Nat) :
    markInsert ⟨g, n1, ch, cm, fs, t1⟩ st l = markInsert ⟨g, n2, ch, cm, fs, t2⟩ st l := by
  unfold markInsert
  rw [skip_env_irrel g n1 n2 ch cm fs t1 t2]

theorem stepEv_env_irrel (g : Gran) (hg : g = .line ∨ g = .func) (n1 n2 : Nat) (ch cm : Array Bool)
    (fs : List (Nat × Nat)) (t1 t2 : List TScope) (st : MState) (ev : Ev) :
    stepEv ⟨g, n1, ch, cm, fs, t1⟩ st ev = stepEv ⟨g, n2, ch, cm, fs, t2⟩ st ev := by
  have hf : ∀ l, forceMark ⟨g, n1, ch, cm, fs, t1⟩ st l = forceMark ⟨g, n2, ch, cm, fs, t2⟩ st l := by
    intro l
    rcases hg with h | h <;> subst h
    · simp only [forceMark]; exact markInsert_env_irrel _ n1 n2 ch cm fs t1 t2 st l
    · simp only [forceMark]
      split
      · rfl
      · split
        · exact markInsert_env_irrel _ n1 n2 ch cm fs t1 t2 st _
        · rfl
  cases ev with
  | check l => simp only [stepEv, Env.isChanged, hf]
  | force l => simp only [stepEv, hf]
  | single l c => simp only [stepEv, Env.isChanged]

theorem run_env_irrel (g : Gran) (hg : g = .line ∨ g = .func) (n1 n2 : Nat) (ch cm : Array Bool)
    (fs : List (Nat × Nat)) (t1 t2 : List TScope) (evs : List Ev) :
    runEvents ⟨g, n1, ch, cm, fs, t1⟩ evs = runEvents ⟨g, n2, ch, cm, fs, t2⟩ evs := by
  unfold runEvents
  have : stepEv ⟨g, n1, ch, cm, fs, t1⟩ = stepEv ⟨g, n2, ch, cm, fs, t2⟩ := by
    funext st ev; exact stepEv_env_irrel g hg n1 n2 ch cm fs t1 t2 st ev
  rw [this]

/-- what `mkEnv` returns -/
theorem mkEnv_eq (f : File) (g : Gran) (ranges : List (Nat × Nat)) (env : Env) (h : mkEnv f g ranges = .ok env) :
    ∃ fs ch tr, functionScopes f = some fs ∧ initChanged f.lineCodes.size ranges = .ok ch ∧
      env = ⟨g, f.lineCodes.size, ch, commentArray f.lineCodes, fs, tr⟩ ∧
      (g = .patch ∨ g = .scope → trackScopes f = some (.ok tr)) := by
  unfold mkEnv at h
  split at h
  · cases h
  · next fs hfs =>
    dsimp only at h
    split at h
    · cases h
    · next tr htr =>
      split at h
      · cases h
      · next ch hch =>
        cases h
        refine ⟨fs, ch, tr, hfs, hch, rfl, ?_⟩
        intro hg
        have hb : (g == .patch || g == .scope) = true := by rcases hg with h | h <;> subst h <;> rfl
        rw [hb] at htr
        simp only [↓reduceIte] at htr
        split at htr
        · cases htr
        · cases htr
        · next ts hts => cases htr; exact hts

/-- what `marks` returns -/
theorem marks_eq (f : File) (g : Gran) (ranges : List (Nat × Nat)) (m : Marks) (h : marks f g ranges = .ok m) :
    ∃ env st, mkEnv f g ranges = .ok env ∧
      runEvents env (fileEvents (fun l => env.changed.getD l false) f) = .ok st ∧ m.count = st.count := by
  unfold marks at h
  split at h
  · cases h
  · next env henv =>
    dsimp only at h
    split at h
    · cases h
    · next st hst => cases h; exact ⟨env, st, henv, hst, rfl⟩

end GoatSpec
