import GoatSpec.Cmd
import GoatSpec.Proofs.Clean
import GoatSpec.Properties.C10
/-! # Lemmas about the item-level file operations -/
namespace GoatSpec

theorem genBlock_kind : genBlockItem.kind = some .generate := C10.genBlock_facts.2.1
theorem genBlock_wf : genBlockItem.wf = true := C10.genBlock_facts.1

theorem userItems_insertBlocks (idxs : List Nat) (i : Nat) (items : List Item) :
    userItems (insertBlocks idxs i items) = userItems items := by
  induction items generalizing i with
  | nil => rfl
  | cons it r ih =>
    simp only [insertBlocks, userItems, List.filter_append, List.filter_cons] at ih ⊢
    split
    · simp [genBlock_kind, ih]
    · simp [ih]

theorem wf_insertBlocks (idxs : List Nat) (i : Nat) (items : List Item) (h : ∀ it ∈ items, it.wf = true) :
    ∀ it ∈ insertBlocks idxs i items, it.wf = true := by
  induction items generalizing i with
  | nil => intro it hit; simp [insertBlocks] at hit
  | cons x r ih =>
    intro it hit
    simp only [insertBlocks] at hit
    rcases List.mem_append.mp hit with h1 | h1
    · split at h1
      · simp at h1; subst h1; exact genBlock_wf
      · cases h1
    · rcases List.mem_cons.mp h1 with h2 | h2
      · rw [h2]; exact h x (by simp)
      · exact ih (i + 1) (fun y hy => h y (by simp [hy])) it h2

theorem userItems_patchExpected (isMain : Bool) (items : List Item) :
    userItems (patchExpected isMain items) = userItems items := by
  induction items with
  | nil => rfl
  | cons it r ih =>
    have e : patchExpected isMain (it :: r) = patchExpected isMain [it] ++ patchExpected isMain r := by
      simp [patchExpected]
    simp only [userItems] at ih ⊢
    rw [e, List.filter_append, ih, List.filter_cons]
    cases hk : it.kind with
    | none => simp [patchExpected, hk]
    | some k => cases k <;> cases isMain <;> simp [patchExpected, hk, genBlock_kind]

theorem wf_patchExpected (isMain : Bool) (items : List Item) (h : ∀ it ∈ items, it.wf = true) :
    ∀ it ∈ patchExpected isMain items, it.wf = true := by
  intro it hit
  simp only [patchExpected, List.mem_flatMap] at hit
  obtain ⟨x, hx, hin⟩ := hit
  have hxw := h x hx
  cases hk : x.kind with
  | none => simp [hk] at hin; subst hin; exact hxw
  | some k =>
    cases k <;> simp [hk] at hin
    all_goals first
      | (subst hin; exact hxw)
      | (subst hin; exact genBlock_wf)
      | (rw [hin.2]; exact hxw)
      | skip

theorem userItems_idem (items : List Item) : userItems (userItems items) = userItems items := by
  simp [userItems, List.filter_filter]

theorem userItems_all_user (items : List Item) : ∀ it ∈ userItems items, it.kind = none := by
  intro it h
  have := (List.mem_filter.mp h).2
  cases hk : it.kind <;> simp [hk] at this ⊢

theorem userItems_of_all_user (items : List Item) (h : ∀ it ∈ items, it.kind = none) : userItems items = items := by
  simp only [userItems, List.filter_eq_self]
  intro a ha; simp [h a ha]

/-- every admissible file operation keeps the file a well-formed arrangement around the
    user's text -/
theorem fileStep_ok (f : FileSt) (op : FileOp) (hf : f.ok) (ha : op.admissible f) : (fileStep f op).ok := by
  cases op with
  | track idxs =>
    refine ⟨wf_insertBlocks idxs 0 f.items hf.1, ?_⟩
    simp only [fileStep, trackFile, userItems_insertBlocks]; exact hf.2
  | patch m edited =>
    obtain ⟨hw, hu⟩ := ha
    refine ⟨wf_patchExpected m edited hw, ?_⟩
    simp only [fileStep, patchFile, userItems_patchExpected, hu]; exact hf.2
  | clean =>
    refine ⟨fun it hit => hf.1 it (List.mem_filter.mp hit).1, ?_⟩
    simp only [fileStep, cleanFile, userItems_idem]; exact hf.2
  | userEdit ni nt =>
    obtain ⟨hw, _, ht⟩ := ha
    exact ⟨hw, ht⟩

/-- cleaning a well-formed file leaves exactly the user's text and no artefact -/
theorem cleanFile_restores (f : FileSt) (hf : f.ok) :
    (∀ it ∈ (cleanFile f).items, it.kind = none)
    ∧ nonBlank (flatten (cleanFile f).items) = nonBlank f.text := by
  exact ⟨userItems_all_user f.items, hf.2⟩

end GoatSpec
