import GoatSpec.Layout
import GoatSpec.Proofs.Mark
import GoatSpec.Proofs.Walk
/-! # Legality of insert positions — helper lemmas for C01 `marks_legal`

Part 1: `skipComments` returns the *first* line at or after its start that is not comment-like;
on a block that meets `blkOK` a forced insert at `lo + 1` therefore lands on the block's first
boundary, and a checked insert on a statement line stays there.
Part 2 (mutual structural induction over the abstract syntax): every `check` event of the
statement walk names a statement line of a block of `fileBlks`, every `force` event of the
control-statement pass names the line after the opening line of a branch block. -/
namespace GoatSpec

/-! ## Part 1: lines -/

/-- every line `skipComments` passes over is comment-like -/
theorem skipComments_first (env : Env) : ∀ (fuel l r : Nat), skipComments env fuel l = .ok r →
    ∀ j, l ≤ j → j < r → env.isComment j = .ok true := by
  intro fuel
  induction fuel with
  | zero => intro l r h; simp [skipComments] at h
  | succ f ih =>
    intro l r h j hlj hjr
    simp only [skipComments] at h
    split at h
    · cases h
    · next hc =>
      by_cases hj : j = l
      · subst hj; exact hc
      · exact ih (l+1) r h j (by omega) hjr
    · cases h; omega

/-- comment flags of an environment built by `mkEnv` are the line codes of the file -/
theorem isComment_of_codes (env : Env) (f : File) (hc : env.comments = commentArray f.lineCodes)
    (l : Nat) (h1 : 1 ≤ l) (h2 : l ≤ f.lineCodes.size) : env.isComment l = .ok (lineComment f l) := by
  unfold Env.isComment
  have hsz : env.comments.size = f.lineCodes.size + 1 := by
    rw [hc]; simp [commentArray]; omega
  have hlt : l < env.comments.size := by omega
  simp only [hlt, dite_true]
  congr 1
  have : env.comments[l] = (commentArray f.lineCodes)[l]'(by rw [← hc]; exact hlt) := by
    simp [hc]
  rw [this]
  unfold commentArray lineComment codeAt
  obtain ⟨k, rfl⟩ : ∃ k, l = k + 1 := ⟨l - 1, by omega⟩
  have hk : k < f.lineCodes.size := by omega
  simp [Array.getElem_append, hk, Array.getD]

/-- first boundary of a block that meets `blkOK` -/
theorem firstBoundary_facts (f : File) (b : Blk) (hok : blkOK f b = true) (hlt : b.lo < b.hi) :
    b.lo < b.firstBoundary ∧ b.firstBoundary ≤ b.hi ∧ lineComment f b.firstBoundary = false
      ∧ (b.firstBoundary = b.hi ∨ b.firstBoundary ∈ b.lines) := by
  simp only [blkOK, Bool.and_eq_true, Bool.or_eq_true, Bool.not_eq_true', decide_eq_false_iff_not,
    decide_eq_true_eq, List.all_eq_true] at hok
  rcases hok.2 with h | h
  · exact absurd hlt h
  · obtain ⟨⟨⟨hl, hhi⟩, hsz⟩, hgap⟩ := h
    unfold Blk.firstBoundary
    cases hs : b.stmts with
    | nil => exact ⟨hlt, Nat.le_refl _, by simpa using hhi, Or.inl rfl⟩
    | cons p rest =>
      obtain ⟨l0, fl⟩ := p
      have hm : l0 ∈ b.lines := by simp [Blk.lines, hs]
      have := hl l0 hm
      exact ⟨this.1.1, this.1.2, this.2, Or.inr hm⟩

/-- the gap between the opening line and the first boundary is comment-like -/
theorem gap_comment (f : File) (b : Blk) (hok : blkOK f b = true) (hlt : b.lo < b.hi)
    (j : Nat) (h1 : b.lo < j) (h2 : j < b.firstBoundary) : lineComment f j = true := by
  simp only [blkOK, Bool.and_eq_true, Bool.or_eq_true, Bool.not_eq_true', decide_eq_false_iff_not,
    decide_eq_true_eq, List.all_eq_true] at hok
  rcases hok.2 with h | h
  · exact absurd hlt h
  · have := h.2 (j - (b.lo + 1)) (by simp; omega)
    have he : b.lo + 1 + (j - (b.lo + 1)) = j := by omega
    rwa [he] at this

theorem blk_hi_le (f : File) (b : Blk) (hok : blkOK f b = true) (hlt : b.lo < b.hi) :
    b.hi ≤ f.lineCodes.size := by
  simp only [blkOK, Bool.and_eq_true, Bool.or_eq_true, Bool.not_eq_true', decide_eq_false_iff_not,
    decide_eq_true_eq, List.all_eq_true] at hok
  rcases hok.2 with h | h
  · exact absurd hlt h
  · exact h.1.2

theorem blk_line_facts (f : File) (b : Blk) (hok : blkOK f b = true) (hlt : b.lo < b.hi)
    (l : Nat) (hl : l ∈ b.lines) : b.lo < l ∧ l ≤ b.hi ∧ lineComment f l = false := by
  simp only [blkOK, Bool.and_eq_true, Bool.or_eq_true, Bool.not_eq_true', decide_eq_false_iff_not,
    decide_eq_true_eq, List.all_eq_true] at hok
  rcases hok.2 with h | h
  · exact absurd hlt h
  · have := h.1.1.1 l hl
    exact ⟨this.1.1, this.1.2, this.2⟩

theorem legalLine_of (f : File) (b : Blk) (hb : b ∈ fileBlks f) (m : Nat) (h1 : b.lo < m) (h2 : m ≤ b.hi)
    (h3 : m = b.hi ∨ m ∈ b.lines) : legalLine f m = true := by
  unfold legalLine
  rw [List.any_eq_true]
  refine ⟨b, hb, ?_⟩
  simp only [Bool.and_eq_true, decide_eq_true_eq, Bool.or_eq_true, beq_iff_eq, List.contains_iff_mem]
  exact ⟨⟨h1, h2⟩, h3⟩

/-- a forced insert lands exactly on the first boundary of its block -/
theorem force_target_eq (env : Env) (f : File) (hc : env.comments = commentArray f.lineCodes)
    (b : Blk) (hok : blkOK f b = true) (hlt : b.lo < b.hi)
    (fuel r : Nat) (h : skipComments env fuel (b.lo + 1) = .ok r) : r = b.firstBoundary := by
  obtain ⟨f1, f2, f3, f4⟩ := firstBoundary_facts f b hok hlt
  have hsz := blk_hi_le f b hok hlt
  have hs := skipComments_spec env fuel _ r h
  have hfirst := skipComments_first env fuel _ r h
  rcases Nat.lt_trichotomy r b.firstBoundary with hlt' | heq | hgt
  · have hg := gap_comment f b hok hlt r (by omega) hlt'
    have := isComment_of_codes env f hc r (by omega) (by omega)
    rw [hs.1, hg] at this; cases this
  · exact heq
  · have := hfirst b.firstBoundary (by omega) hgt
    have h2 := isComment_of_codes env f hc b.firstBoundary (by omega) (by omega)
    rw [this, f3] at h2; cases h2

/-- a checked insert on a statement line of a block stays on that line -/
theorem check_target_eq (env : Env) (f : File) (hc : env.comments = commentArray f.lineCodes)
    (b : Blk) (hok : blkOK f b = true) (hlt : b.lo < b.hi)
    (l : Nat) (hl : l ∈ b.lines) (fuel r : Nat) (h : skipComments env (fuel+1) l = .ok r) : r = l := by
  obtain ⟨g1, g2, g3⟩ := blk_line_facts f b hok hlt l hl
  have hsz := blk_hi_le f b hok hlt
  have hcm := isComment_of_codes env f hc l (by omega) (by omega)
  rw [g3] at hcm
  rw [skipComments_id env fuel l hcm] at h
  cases h; rfl

/-- **a forced insert lands on the first boundary of its block** -/
theorem force_target_legal (env : Env) (f : File) (hc : env.comments = commentArray f.lineCodes)
    (b : Blk) (hb : b ∈ fileBlks f) (hok : blkOK f b = true) (hlt : b.lo < b.hi)
    (fuel r : Nat) (h : skipComments env fuel (b.lo + 1) = .ok r) : legalLine f r = true := by
  obtain ⟨f1, f2, f3, f4⟩ := firstBoundary_facts f b hok hlt
  have hsz := blk_hi_le f b hok hlt
  have hs := skipComments_spec env fuel _ r h
  have hfirst := skipComments_first env fuel _ r h
  have hr : r = b.firstBoundary := by
    rcases Nat.lt_trichotomy r b.firstBoundary with hlt' | heq | hgt
    · -- r inside the gap: comment-like, contradiction
      have hg := gap_comment f b hok hlt r (by omega) hlt'
      have := isComment_of_codes env f hc r (by omega) (by omega)
      rw [hs.1, hg] at this; cases this
    · exact heq
    · have := hfirst b.firstBoundary (by omega) hgt
      have h2 := isComment_of_codes env f hc b.firstBoundary (by omega) (by omega)
      rw [this, f3] at h2; cases h2
  subst hr
  exact legalLine_of f b hb _ f1 f2 f4

/-- **a checked insert on a statement line stays on that line** -/
theorem check_target_legal (env : Env) (f : File) (hc : env.comments = commentArray f.lineCodes)
    (b : Blk) (hb : b ∈ fileBlks f) (hok : blkOK f b = true) (hlt : b.lo < b.hi)
    (l : Nat) (hl : l ∈ b.lines) (fuel r : Nat) (h : skipComments env (fuel+1) l = .ok r) :
    legalLine f r = true := by
  obtain ⟨g1, g2, g3⟩ := blk_line_facts f b hok hlt l hl
  have hsz := blk_hi_le f b hok hlt
  have hcm := isComment_of_codes env f hc l (by omega) (by omega)
  rw [g3] at hcm
  rw [skipComments_id env fuel l hcm] at h
  cases h
  exact legalLine_of f b hb _ g1 g2 (Or.inr hl)

/-! ## Part 2: events name block lines -/

/-- a block the walk can reach: delimiters on different lines, or a branch of a control statement -/
def Multi (b : Blk) : Prop := b.lo ≠ b.hi ∨ b.header ≠ []

/-- `l` is a statement line of a reachable block of `blks` -/
def CheckOK (blks : List Blk) (l : Nat) : Prop := ∃ b ∈ blks, l ∈ b.lines ∧ Multi b

/-- `l` is the line after the opening line of a branch block of `blks` -/
def ForceOK (blks : List Blk) (l : Nat) : Prop := ∃ b ∈ blks, l = b.lo + 1 ∧ b.header ≠ []

theorem CheckOK.mono {A B : List Blk} {l : Nat} (h : CheckOK A l) (hs : ∀ b ∈ A, b ∈ B) : CheckOK B l := by
  obtain ⟨b, hb, h1, h2⟩ := h; exact ⟨b, hs b hb, h1, h2⟩
theorem CheckOK.inl {A B : List Blk} {l : Nat} (h : CheckOK A l) : CheckOK (A ++ B) l :=
  h.mono (fun _ hb => List.mem_append_left _ hb)
theorem CheckOK.inr {A B : List Blk} {l : Nat} (h : CheckOK B l) : CheckOK (A ++ B) l :=
  h.mono (fun _ hb => List.mem_append_right _ hb)
theorem CheckOK.tail {a : Blk} {B : List Blk} {l : Nat} (h : CheckOK B l) : CheckOK (a :: B) l :=
  h.mono (fun _ hb => List.mem_cons_of_mem _ hb)

theorem ForceOK.mono {A B : List Blk} {l : Nat} (h : ForceOK A l) (hs : ∀ b ∈ A, b ∈ B) : ForceOK B l := by
  obtain ⟨b, hb, h1, h2⟩ := h; exact ⟨b, hs b hb, h1, h2⟩
theorem ForceOK.inl {A B : List Blk} {l : Nat} (h : ForceOK A l) : ForceOK (A ++ B) l :=
  h.mono (fun _ hb => List.mem_append_left _ hb)
theorem ForceOK.inr {A B : List Blk} {l : Nat} (h : ForceOK B l) : ForceOK (A ++ B) l :=
  h.mono (fun _ hb => List.mem_append_right _ hb)
theorem ForceOK.tail {a : Blk} {B : List Blk} {l : Nat} (h : ForceOK B l) : ForceOK (a :: B) l :=
  h.mono (fun _ hb => List.mem_cons_of_mem _ hb)

/-- lines at which the walk emits a `check` for the statement itself -/
def ownLines : Stmt → List Nat
  | .simple .mark l _ _ _ _ => [l]
  | .simple (.decl _) l _ _ _ _ => [l]
  | .simple .noMark _ _ _ _ _ => []
  | .block l _ _ => [l]
  | .labeled _ _ inner => ownLines inner
  | _ => []

theorem ownLines_sub : (s : Stmt) → ∀ l ∈ ownLines s, l ∈ (stmtEntries s).map (·.1)
  | .simple .mark l _ _ _ _ => by intro x hx; simpa [ownLines, stmtEntries, Stmt.line] using hx
  | .simple (.decl _) l _ _ _ _ => by intro x hx; simpa [ownLines, stmtEntries, Stmt.line] using hx
  | .simple .noMark _ _ _ _ _ => by intro x hx; simp [ownLines] at hx
  | .block l _ _ => by intro x hx; simpa [ownLines, stmtEntries, Stmt.line] using hx
  | .labeled l e inner => by
    intro x hx
    simp only [ownLines] at hx
    have := ownLines_sub inner x hx
    simp only [stmtEntries, List.map_cons, List.mem_cons]
    exact Or.inr this
  | .ifS .. => by intro x hx; simp [ownLines] at hx
  | .forS .. => by intro x hx; simp [ownLines] at hx
  | .rangeS .. => by intro x hx; simp [ownLines] at hx
  | .switchS .. => by intro x hx; simp [ownLines] at hx
  | .typeSwitchS .. => by intro x hx; simp [ownLines] at hx
  | .selectS .. => by intro x hx; simp [ownLines] at hx
  | .caseC .. => by intro x hx; simp [ownLines] at hx
  | .commC .. => by intro x hx; simp [ownLines] at hx

theorem entriesOf_cons (s : Stmt) (r : List Stmt) : entriesOf (s :: r) = stmtEntries s ++ entriesOf r := by
  simp [entriesOf]


theorem multi_of_ne {lo hi : Nat} {st : List (Nat × Bool)} {hd : List Nat} (h : lo ≠ hi) : Multi ⟨lo, hi, st, hd⟩ := Or.inl h
theorem multi_of_hdr {lo hi : Nat} {st : List (Nat × Bool)} {hd : List Nat} (h : hd ≠ []) : Multi ⟨lo, hi, st, hd⟩ := Or.inr h

/-- a line of the entries of a non-empty body: the body is not empty -/
theorem entries_nonempty {ss : List Stmt} {l : Nat} (h : l ∈ (entriesOf ss).map (·.1)) : ss.isEmpty = false := by
  cases ss with
  | nil => simp [entriesOf] at h
  | cons _ _ => rfl

/-- what `blksS` records for the `else` branch of an `if` whose header lines are `hdr` -/
def elseBlks (hdr : List Nat) (els : List Stmt) : List Blk :=
  match els with
  | [.block bl be b] => ⟨bl, be, entriesOf b, hdr⟩ :: blksL b
  | other => blksL other

theorem blksS_if (ln e : Nat) (init : List Stmt) (ir cr : ORng) (cond : List Expr) (lb rb : Nat) (body els : List Stmt) :
    blksS (.ifS ln e init ir cr cond lb rb body els) =
      blksL init ++ blksEs cond ++ (⟨lb, rb, entriesOf body, ln :: (rngLines ir ++ rngLines cr)⟩ :: blksL body) ++
        elseBlks (ln :: (rngLines ir ++ rngLines cr)) els := by
  unfold elseBlks
  split
  · rw [blksS]
  · next h =>
    rw [blksS]
    intro bl be b hh
    exact h bl be b hh

/-! **check events name statement lines** (mutual structural induction over the whole
    statement / expression tree, mirroring `evS` on one side and `blksS` on the other) -/
mutual
theorem chkE (e : Expr) (hs : shapeE e = true) : ∀ l, Ev.check l ∈ evE e → CheckOK (blksE e) l := by
  cases e with
  | funcLit pl el lb rb first body =>
    intro l h
    simp only [shapeE, Bool.and_eq_true, Bool.or_eq_true, bne_iff_ne, ne_eq, beq_iff_eq] at hs
    simp only [evE] at h
    split at h
    · cases h
    · split at h
      · simp at h
      · next hne =>
        have hlr : lb ≠ rb := by
          rcases hs.1 with h1 | h1
          · exact h1
          · exact absurd h1 (by simpa using hne)
        simp only [blksE]
        rcases chkL body hs.2 l h with h1 | h1
        · exact ⟨_, List.mem_cons_self .., h1, multi_of_ne hlr⟩
        · exact h1.tail
  | call fn args =>
    intro l h
    simp only [shapeE, Bool.and_eq_true] at hs
    simp only [evE] at h; simp only [blksE]
    rcases List.mem_append.mp h with h | h
    · exact (chkEs fn hs.1 l h).inl
    · exact (chkEs args hs.2 l h).inr
  | composite typ elts =>
    intro l h
    simp only [shapeE, Bool.and_eq_true] at hs
    simp only [evE] at h; simp only [blksE]
    exact (chkEs elts hs.2 l h).inr
  | keyValue k v =>
    intro l h
    simp only [shapeE, Bool.and_eq_true] at hs
    simp only [evE] at h; simp only [blksE]
    exact (chkEs v hs.2 l h).inr
  | unary x =>
    intro l h
    simp only [shapeE] at hs
    simp only [evE] at h; simp only [blksE]
    exact chkEs x hs l h
  | structType fs =>
    intro l h
    simp only [shapeE] at hs
    simp only [evE] at h; simp only [blksE]
    exact chkEs fs hs l h
  | other cs => intro l h; simp [evE] at h
theorem chkEs (es : List Expr) (hs : shapeEs es = true) : ∀ l, Ev.check l ∈ evEs es → CheckOK (blksEs es) l := by
  cases es with
  | nil => intro l h; simp [evEs] at h
  | cons e r =>
    intro l h
    simp only [shapeEs, Bool.and_eq_true] at hs
    simp only [evEs] at h; simp only [blksEs]
    rcases List.mem_append.mp h with h | h
    · exact (chkE e hs.1 l h).inl
    · exact (chkEs r hs.2 l h).inr
theorem chkS (s : Stmt) (hs : shapeS s = true) :
    ∀ l, Ev.check l ∈ evS s → l ∈ ownLines s ∨ CheckOK (blksS s) l := by
  cases s with
  | simple k ln e pre ent post =>
    intro l h
    simp only [shapeS, Bool.and_eq_true] at hs
    cases k with
    | mark =>
      simp only [evS] at h
      rcases List.mem_cons.mp h with h | h
      · cases h; left; simp [ownLines]
      · right; simp only [blksS]; exact ((chkEs ent hs.1.2 l h).inr).inl
    | noMark => simp [evS] at h
    | decl n =>
      simp only [evS] at h
      have := (List.mem_replicate.mp h).2
      cases this; left; simp [ownLines]
  | block ln e body =>
    intro l h
    simp only [shapeS, Bool.and_eq_true, Bool.or_eq_true, bne_iff_ne, ne_eq] at hs
    simp only [evS] at h
    rcases List.mem_cons.mp h with h | h
    · cases h; left; simp [ownLines]
    · right; simp only [blksS]
      rcases chkL body hs.2 l h with h1 | h1
      · have hne : ln ≠ e := by
          rcases hs.1 with h2 | h2
          · rw [entries_nonempty h1] at h2; cases h2
          · exact h2
        exact ⟨_, List.mem_cons_self .., h1, multi_of_ne hne⟩
      · exact h1.tail
  | labeled ln e inner =>
    intro l h
    simp only [shapeS] at hs
    simp only [evS] at h
    simp only [ownLines, blksS]
    exact chkS inner hs l h
  | ifS ln e init ir cr cond lb rb body els =>
    intro l h
    simp only [shapeS, Bool.and_eq_true] at hs
    simp only [evS] at h
    right; rw [blksS_if]
    rcases List.mem_append.mp h with h | h
    · rcases chkL body hs.1.2 l h with h1 | h1
      · exact CheckOK.inl (CheckOK.inr ⟨_, List.mem_cons_self .., h1, multi_of_hdr (by simp)⟩)
      · exact CheckOK.inl (CheckOK.inr h1.tail)
    · exact CheckOK.inr (chkElse els hs.2 (ln :: (rngLines ir ++ rngLines cr)) (by simp) l h)
  | forS ln e init ir cr pr cond post lb rb body =>
    intro l h
    simp only [shapeS, Bool.and_eq_true] at hs
    simp only [evS] at h
    right; simp only [blksS]
    rcases chkL body hs.2 l h with h1 | h1
    · exact CheckOK.inr ⟨_, List.mem_cons_self .., h1, multi_of_hdr (by simp)⟩
    · exact CheckOK.inr h1.tail
  | rangeS ln e kr vr xr kvx lb rb body =>
    intro l h
    simp only [shapeS, Bool.and_eq_true] at hs
    simp only [evS] at h
    right; simp only [blksS]
    rcases chkL body hs.2 l h with h1 | h1
    · exact CheckOK.inr ⟨_, List.mem_cons_self .., h1, multi_of_hdr (by simp)⟩
    · exact CheckOK.inr h1.tail
  | switchS ln e init ir tr tag lb rb cl =>
    intro l h
    simp only [shapeS, Bool.and_eq_true] at hs
    simp only [evS] at h
    right; simp only [blksS]
    exact CheckOK.inr (chkCases cl hs.2 _ _ l h)
  | typeSwitchS ln e init ir ar asg lb rb cl =>
    intro l h
    simp only [shapeS, Bool.and_eq_true] at hs
    simp only [evS] at h
    right; simp only [blksS]
    exact CheckOK.inr (chkCases cl hs.2 _ _ l h)
  | selectS ln e lb rb cl =>
    intro l h
    simp only [shapeS] at hs
    simp only [evS] at h
    right; simp only [blksS]
    exact chkComms cl hs _ _ l h
  | caseC ln e lr list colon body => simp [shapeS] at hs
  | commC ln e cr comm colon body => simp [shapeS] at hs
/-- the `else` branch: `blks` is what `blksS` records for it under header `hdr` -/
theorem chkElse (els : List Stmt) (hs : shapeElse els = true) (hdr : List Nat) (hh : hdr ≠ []) :
    ∀ l, Ev.check l ∈ evElse els → CheckOK (elseBlks hdr els) l := by
  cases els with
  | nil => intro l h; simp [evElse] at h
  | cons s r =>
    cases r with
    | cons s2 r2 => simp [shapeElse] at hs
    | nil =>
      cases s with
      | block bl be b =>
        intro l h
        simp only [shapeElse] at hs
        simp only [evElse] at h
        simp only [elseBlks]
        rcases chkL b hs l h with h1 | h1
        · exact ⟨_, List.mem_cons_self .., h1, multi_of_hdr hh⟩
        · exact h1.tail
      | ifS ln e init ir cr cond lb rb body els2 =>
        intro l h
        simp only [shapeElse] at hs
        simp only [evElse] at h
        rcases chkS _ hs l h with h1 | h1
        · simp [ownLines] at h1
        · simp only [elseBlks, blksL, List.append_nil]; exact h1
      | simple k ln e pre ent post => simp [shapeElse] at hs
      | labeled ln e inner => simp [shapeElse] at hs
      | forS ln e init ir cr pr cond post lb rb body => simp [shapeElse] at hs
      | rangeS ln e kr vr xr kvx lb rb body => simp [shapeElse] at hs
      | switchS ln e init ir tr tag lb rb cl => simp [shapeElse] at hs
      | typeSwitchS ln e init ir ar asg lb rb cl => simp [shapeElse] at hs
      | selectS ln e lb rb cl => simp [shapeElse] at hs
      | caseC ln e lr list colon body => simp [shapeElse] at hs
      | commC ln e cr comm colon body => simp [shapeElse] at hs
theorem chkCases (cl : List Stmt) (hs : shapeCases cl = true) (hdr : List Nat) (his : List Nat) :
    ∀ l, Ev.check l ∈ evL cl → CheckOK (blksClauses hdr cl his) l := by
  cases cl with
  | nil => intro l h; simp [evL] at h
  | cons c r =>
    cases c with
    | caseC ln e lr list colon body =>
      intro l h
      simp only [shapeCases, Bool.and_eq_true] at hs
      simp only [evL, evS] at h
      simp only [blksClauses]
      rcases List.mem_append.mp h with h | h
      · rcases chkL body hs.1.2 l h with h1 | h1
        · exact CheckOK.inl (CheckOK.inr ⟨_, List.mem_cons_self .., h1, multi_of_hdr (by simp)⟩)
        · exact CheckOK.inl (CheckOK.inr h1.tail)
      · exact CheckOK.inr (chkCases r hs.2 hdr his.tail l h)
    | simple k ln e pre ent post => simp [shapeCases] at hs
    | block ln e body => simp [shapeCases] at hs
    | labeled ln e inner => simp [shapeCases] at hs
    | ifS ln e init ir cr cond lb rb body els => simp [shapeCases] at hs
    | forS ln e init ir cr pr cond post lb rb body => simp [shapeCases] at hs
    | rangeS ln e kr vr xr kvx lb rb body => simp [shapeCases] at hs
    | switchS ln e init ir tr tag lb rb cl => simp [shapeCases] at hs
    | typeSwitchS ln e init ir ar asg lb rb cl => simp [shapeCases] at hs
    | selectS ln e lb rb cl => simp [shapeCases] at hs
    | commC ln e cr comm colon body => simp [shapeCases] at hs
theorem chkComms (cl : List Stmt) (hs : shapeComms cl = true) (hdr : List Nat) (his : List Nat) :
    ∀ l, Ev.check l ∈ evL cl → CheckOK (blksClauses hdr cl his) l := by
  cases cl with
  | nil => intro l h; simp [evL] at h
  | cons c r =>
    cases c with
    | commC ln e cr comm colon body =>
      intro l h
      simp only [shapeComms, Bool.and_eq_true] at hs
      simp only [evL, evS] at h
      simp only [blksClauses]
      rcases List.mem_append.mp h with h | h
      · rcases chkL body hs.1.2 l h with h1 | h1
        · exact CheckOK.inl (CheckOK.inr ⟨_, List.mem_cons_self .., h1, multi_of_hdr (by simp)⟩)
        · exact CheckOK.inl (CheckOK.inr h1.tail)
      · exact CheckOK.inr (chkComms r hs.2 hdr his.tail l h)
    | simple k ln e pre ent post => simp [shapeComms] at hs
    | block ln e body => simp [shapeComms] at hs
    | labeled ln e inner => simp [shapeComms] at hs
    | ifS ln e init ir cr cond lb rb body els => simp [shapeComms] at hs
    | forS ln e init ir cr pr cond post lb rb body => simp [shapeComms] at hs
    | rangeS ln e kr vr xr kvx lb rb body => simp [shapeComms] at hs
    | switchS ln e init ir tr tag lb rb cl => simp [shapeComms] at hs
    | typeSwitchS ln e init ir ar asg lb rb cl => simp [shapeComms] at hs
    | selectS ln e lb rb cl => simp [shapeComms] at hs
    | caseC ln e lr list colon body => simp [shapeComms] at hs
theorem chkL (ss : List Stmt) (hs : shapeBody ss = true) :
    ∀ l, Ev.check l ∈ evL ss → l ∈ (entriesOf ss).map (·.1) ∨ CheckOK (blksL ss) l := by
  cases ss with
  | nil => intro l h; simp [evL] at h
  | cons s r =>
    intro l h
    simp only [shapeBody, Bool.and_eq_true] at hs
    simp only [evL] at h
    simp only [blksL, entriesOf_cons, List.map_append, List.mem_append]
    rcases List.mem_append.mp h with h | h
    · rcases chkS s hs.1 l h with h1 | h1
      · exact Or.inl (Or.inl (ownLines_sub s l h1))
      · exact Or.inr h1.inl
    · rcases chkL r hs.2 l h with h1 | h1
      · exact Or.inl (Or.inr h1)
      · exact Or.inr h1.inr
end


/-! ### force events -/

/-- the forced insert of a plain `else` block, as `ctlS` emits it -/
def elseForce (els : List Stmt) : List Ev :=
  match els with
  | [.block bl _ b] => if b.isEmpty then [] else [Ev.force (bl + 1)]
  | _ => []

theorem ctlS_if (ch : Nat → Bool) (ln e : Nat) (init : List Stmt) (ir cr : ORng) (cond : List Expr) (lb rb : Nat)
    (body els : List Stmt) :
    ctlS ch (.ifS ln e init ir cr cond lb rb body els) =
      (if ch ln || rngChanged ch ir || rngChanged ch cr then Ev.force (lb + 1) :: elseForce els else [])
        ++ ctlL ch init ++ ctlEs ch cond ++ ctlL ch body ++ ctlL ch els := by
  by_cases hb : ∃ bl be b, els = [Stmt.block bl be b]
  · obtain ⟨bl, be, b, rfl⟩ := hb
    rw [ctlS]; rfl
  · have he : elseForce els = [] := by
      unfold elseForce
      split
      · exact absurd ⟨_, _, _, rfl⟩ hb
      · rfl
    rw [ctlS, he]
    intro bl be b h
    exact hb ⟨bl, be, b, h⟩

theorem elseForce_ok (hdr : List Nat) (hh : hdr ≠ []) (els : List Stmt) :
    ∀ l, Ev.force l ∈ elseForce els → ForceOK (elseBlks hdr els) l := by
  intro l h
  unfold elseForce at h
  split at h
  · next bl be b =>
    split at h
    · cases h
    · simp at h; subst h
      simp only [elseBlks]
      exact ⟨_, List.mem_cons_self .., rfl, hh⟩
  · cases h

theorem clauseForces_ok (hdr : List Nat) : ∀ (cl : List Stmt) (his : List Nat), shapeCases cl = true →
    ∀ l, Ev.force l ∈ clauseForces cl → ForceOK (blksClauses hdr cl his) l := by
  intro cl
  induction cl with
  | nil => intro his _ l h; simp [clauseForces] at h
  | cons c r ih =>
    intro his hs l h
    cases c with
    | caseC ln e lr list colon body =>
      simp only [shapeCases, Bool.and_eq_true] at hs
      simp only [clauseForces] at h
      simp only [blksClauses]
      rcases List.mem_append.mp h with h | h
      · split at h
        · cases h
        · simp at h; subst h
          exact ForceOK.inl (ForceOK.inr ⟨_, List.mem_cons_self .., rfl, by simp⟩)
      · exact ForceOK.inr (ih his.tail hs.2 l h)
    | simple k ln e pre ent post => simp [shapeCases] at hs
    | block ln e body => simp [shapeCases] at hs
    | labeled ln e inner => simp [shapeCases] at hs
    | ifS ln e init ir cr cond lb rb body els => simp [shapeCases] at hs
    | forS ln e init ir cr pr cond post lb rb body => simp [shapeCases] at hs
    | rangeS ln e kr vr xr kvx lb rb body => simp [shapeCases] at hs
    | switchS ln e init ir tr tag lb rb cl => simp [shapeCases] at hs
    | typeSwitchS ln e init ir ar asg lb rb cl => simp [shapeCases] at hs
    | selectS ln e lb rb cl => simp [shapeCases] at hs
    | commC ln e cr comm colon body => simp [shapeCases] at hs

/-! **force events name the line after the opening line of a branch block** (mutual structural
    induction, mirroring `ctlS` on one side and `blksS` on the other) -/
mutual
theorem frcE (ch : Nat → Bool) (e : Expr) (hs : shapeE e = true) : ∀ l, Ev.force l ∈ ctlE ch e → ForceOK (blksE e) l := by
  cases e with
  | funcLit pl el lb rb first body =>
    intro l h
    simp only [shapeE, Bool.and_eq_true] at hs
    simp only [ctlE] at h; simp only [blksE]
    exact (frcL ch body hs.2 l h).tail
  | call fn args =>
    intro l h
    simp only [shapeE, Bool.and_eq_true] at hs
    simp only [ctlE] at h; simp only [blksE]
    rcases List.mem_append.mp h with h | h
    · exact (frcEs ch fn hs.1 l h).inl
    · exact (frcEs ch args hs.2 l h).inr
  | composite typ elts =>
    intro l h
    simp only [shapeE, Bool.and_eq_true] at hs
    simp only [ctlE] at h; simp only [blksE]
    rcases List.mem_append.mp h with h | h
    · exact (frcEs ch typ hs.1 l h).inl
    · exact (frcEs ch elts hs.2 l h).inr
  | keyValue k v =>
    intro l h
    simp only [shapeE, Bool.and_eq_true] at hs
    simp only [ctlE] at h; simp only [blksE]
    rcases List.mem_append.mp h with h | h
    · exact (frcEs ch k hs.1 l h).inl
    · exact (frcEs ch v hs.2 l h).inr
  | unary x =>
    intro l h
    simp only [shapeE] at hs
    simp only [ctlE] at h; simp only [blksE]
    exact frcEs ch x hs l h
  | structType fs =>
    intro l h
    simp only [shapeE] at hs
    simp only [ctlE] at h; simp only [blksE]
    exact frcEs ch fs hs l h
  | other cs =>
    intro l h
    simp only [shapeE] at hs
    simp only [ctlE] at h; simp only [blksE]
    exact frcEs ch cs hs l h
theorem frcEs (ch : Nat → Bool) (es : List Expr) (hs : shapeEs es = true) : ∀ l, Ev.force l ∈ ctlEs ch es → ForceOK (blksEs es) l := by
  cases es with
  | nil => intro l h; simp [ctlEs] at h
  | cons e r =>
    intro l h
    simp only [shapeEs, Bool.and_eq_true] at hs
    simp only [ctlEs] at h; simp only [blksEs]
    rcases List.mem_append.mp h with h | h
    · exact (frcE ch e hs.1 l h).inl
    · exact (frcEs ch r hs.2 l h).inr
theorem frcS (ch : Nat → Bool) (s : Stmt) (hs : shapeS s = true) : ∀ l, Ev.force l ∈ ctlS ch s → ForceOK (blksS s) l := by
  cases s with
  | simple k ln e pre ent post =>
    intro l h
    simp only [shapeS, Bool.and_eq_true] at hs
    simp only [ctlS] at h; simp only [blksS]
    rcases List.mem_append.mp h with h | h
    · rcases List.mem_append.mp h with h | h
      · exact ((frcEs ch pre hs.1.1 l h).inl).inl
      · exact ((frcEs ch ent hs.1.2 l h).inr).inl
    · exact (frcEs ch post hs.2 l h).inr
  | block ln e body =>
    intro l h
    simp only [shapeS, Bool.and_eq_true] at hs
    simp only [ctlS] at h; simp only [blksS]
    exact (frcL ch body hs.2 l h).tail
  | labeled ln e inner =>
    intro l h
    simp only [shapeS] at hs
    simp only [ctlS] at h; simp only [blksS]
    exact frcS ch inner hs l h
  | ifS ln e init ir cr cond lb rb body els =>
    intro l h
    simp only [shapeS, Bool.and_eq_true] at hs
    rw [ctlS_if] at h; rw [blksS_if]
    have hh : (ln :: (rngLines ir ++ rngLines cr)) ≠ [] := by simp
    rcases List.mem_append.mp h with h | h
    · rcases List.mem_append.mp h with h | h
      · rcases List.mem_append.mp h with h | h
        · rcases List.mem_append.mp h with h | h
          · split at h
            · rcases List.mem_cons.mp h with h | h
              · cases h
                exact ForceOK.inl (ForceOK.inr ⟨_, List.mem_cons_self .., rfl, hh⟩)
              · exact ForceOK.inr (elseForce_ok _ hh els l h)
            · cases h
          · exact ForceOK.inl (ForceOK.inl (ForceOK.inl (frcL ch init hs.1.1.1 l h)))
        · exact ForceOK.inl (ForceOK.inl (ForceOK.inr (frcEs ch cond hs.1.1.2 l h)))
      · exact ForceOK.inl (ForceOK.inr (frcL ch body hs.1.2 l h).tail)
    · exact ForceOK.inr (frcElse ch els hs.2 _ l h)
  | forS ln e init ir cr pr cond post lb rb body =>
    intro l h
    simp only [shapeS, Bool.and_eq_true] at hs
    simp only [ctlS] at h; simp only [blksS]
    rcases List.mem_append.mp h with h | h
    · rcases List.mem_append.mp h with h | h
      · rcases List.mem_append.mp h with h | h
        · rcases List.mem_append.mp h with h | h
          · split at h
            · simp at h; subst h
              exact ForceOK.inr ⟨_, List.mem_cons_self .., rfl, by simp⟩
            · cases h
          · exact ForceOK.inl (ForceOK.inl (ForceOK.inl (frcL ch init hs.1.1.1 l h)))
        · exact ForceOK.inl (ForceOK.inl (ForceOK.inr (frcEs ch cond hs.1.1.2 l h)))
      · exact ForceOK.inl (ForceOK.inr (frcL ch post hs.1.2 l h))
    · exact ForceOK.inr (frcL ch body hs.2 l h).tail
  | rangeS ln e kr vr xr kvx lb rb body =>
    intro l h
    simp only [shapeS, Bool.and_eq_true] at hs
    simp only [ctlS] at h; simp only [blksS]
    rcases List.mem_append.mp h with h | h
    · rcases List.mem_append.mp h with h | h
      · split at h
        · simp at h; subst h
          exact ForceOK.inr ⟨_, List.mem_cons_self .., rfl, by simp⟩
        · cases h
      · exact ForceOK.inl (frcEs ch kvx hs.1 l h)
    · exact ForceOK.inr (frcL ch body hs.2 l h).tail
  | switchS ln e init ir tr tag lb rb cl =>
    intro l h
    simp only [shapeS, Bool.and_eq_true] at hs
    simp only [ctlS] at h; simp only [blksS]
    rcases List.mem_append.mp h with h | h
    · rcases List.mem_append.mp h with h | h
      · rcases List.mem_append.mp h with h | h
        · split at h
          · exact ForceOK.inr (clauseForces_ok _ cl _ hs.2 l h)
          · cases h
        · exact ForceOK.inl (ForceOK.inl (frcL ch init hs.1.1 l h))
      · exact ForceOK.inl (ForceOK.inr (frcEs ch tag hs.1.2 l h))
    · exact ForceOK.inr (frcCases ch cl hs.2 _ _ l h)
  | typeSwitchS ln e init ir ar asg lb rb cl =>
    intro l h
    simp only [shapeS, Bool.and_eq_true] at hs
    simp only [ctlS] at h; simp only [blksS]
    rcases List.mem_append.mp h with h | h
    · rcases List.mem_append.mp h with h | h
      · rcases List.mem_append.mp h with h | h
        · split at h
          · exact ForceOK.inr (clauseForces_ok _ cl _ hs.2 l h)
          · cases h
        · exact ForceOK.inl (ForceOK.inl (frcL ch init hs.1.1 l h))
      · exact ForceOK.inl (ForceOK.inr (frcL ch asg hs.1.2 l h))
    · exact ForceOK.inr (frcCases ch cl hs.2 _ _ l h)
  | selectS ln e lb rb cl =>
    intro l h
    simp only [shapeS] at hs
    simp only [ctlS] at h; simp only [blksS]
    exact frcComms ch cl hs _ _ l h
  | caseC ln e lr list colon body => simp [shapeS] at hs
  | commC ln e cr comm colon body => simp [shapeS] at hs
theorem frcElse (ch : Nat → Bool) (els : List Stmt) (hs : shapeElse els = true) (hdr : List Nat) :
    ∀ l, Ev.force l ∈ ctlL ch els → ForceOK (elseBlks hdr els) l := by
  cases els with
  | nil => intro l h; simp [ctlL] at h
  | cons s r =>
    cases r with
    | cons s2 r2 => simp [shapeElse] at hs
    | nil =>
      cases s with
      | block bl be b =>
        intro l h
        simp only [shapeElse] at hs
        simp only [ctlL, ctlS, List.append_nil] at h
        simp only [elseBlks]
        exact (frcL ch b hs l h).tail
      | ifS ln e init ir cr cond lb rb body els2 =>
        intro l h
        simp only [shapeElse] at hs
        simp only [ctlL, List.append_nil] at h
        simp only [elseBlks, blksL, List.append_nil]
        exact frcS ch _ hs l h
      | simple k ln e pre ent post => simp [shapeElse] at hs
      | labeled ln e inner => simp [shapeElse] at hs
      | forS ln e init ir cr pr cond post lb rb body => simp [shapeElse] at hs
      | rangeS ln e kr vr xr kvx lb rb body => simp [shapeElse] at hs
      | switchS ln e init ir tr tag lb rb cl => simp [shapeElse] at hs
      | typeSwitchS ln e init ir ar asg lb rb cl => simp [shapeElse] at hs
      | selectS ln e lb rb cl => simp [shapeElse] at hs
      | caseC ln e lr list colon body => simp [shapeElse] at hs
      | commC ln e cr comm colon body => simp [shapeElse] at hs
theorem frcCases (ch : Nat → Bool) (cl : List Stmt) (hs : shapeCases cl = true) (hdr : List Nat) (his : List Nat) :
    ∀ l, Ev.force l ∈ ctlL ch cl → ForceOK (blksClauses hdr cl his) l := by
  cases cl with
  | nil => intro l h; simp [ctlL] at h
  | cons c r =>
    cases c with
    | caseC ln e lr list colon body =>
      intro l h
      simp only [shapeCases, Bool.and_eq_true] at hs
      simp only [ctlL, ctlS] at h
      simp only [blksClauses]
      rcases List.mem_append.mp h with h | h
      · rcases List.mem_append.mp h with h | h
        · rcases List.mem_append.mp h with h | h
          · split at h
            · simp at h; subst h
              exact ForceOK.inl (ForceOK.inr ⟨_, List.mem_cons_self .., rfl, by simp⟩)
            · cases h
          · exact ForceOK.inl (ForceOK.inl (frcEs ch list hs.1.1 l h))
        · exact ForceOK.inl (ForceOK.inr (frcL ch body hs.1.2 l h).tail)
      · exact ForceOK.inr (frcCases ch r hs.2 hdr his.tail l h)
    | simple k ln e pre ent post => simp [shapeCases] at hs
    | block ln e body => simp [shapeCases] at hs
    | labeled ln e inner => simp [shapeCases] at hs
    | ifS ln e init ir cr cond lb rb body els => simp [shapeCases] at hs
    | forS ln e init ir cr pr cond post lb rb body => simp [shapeCases] at hs
    | rangeS ln e kr vr xr kvx lb rb body => simp [shapeCases] at hs
    | switchS ln e init ir tr tag lb rb cl => simp [shapeCases] at hs
    | typeSwitchS ln e init ir ar asg lb rb cl => simp [shapeCases] at hs
    | selectS ln e lb rb cl => simp [shapeCases] at hs
    | commC ln e cr comm colon body => simp [shapeCases] at hs
theorem frcComms (ch : Nat → Bool) (cl : List Stmt) (hs : shapeComms cl = true) (hdr : List Nat) (his : List Nat) :
    ∀ l, Ev.force l ∈ ctlL ch cl → ForceOK (blksClauses hdr cl his) l := by
  cases cl with
  | nil => intro l h; simp [ctlL] at h
  | cons c r =>
    cases c with
    | commC ln e cr comm colon body =>
      intro l h
      simp only [shapeComms, Bool.and_eq_true] at hs
      simp only [ctlL, ctlS] at h
      simp only [blksClauses]
      rcases List.mem_append.mp h with h | h
      · rcases List.mem_append.mp h with h | h
        · rcases List.mem_append.mp h with h | h
          · split at h
            · simp at h; subst h
              exact ForceOK.inl (ForceOK.inr ⟨_, List.mem_cons_self .., rfl, by simp⟩)
            · cases h
          · exact ForceOK.inl (ForceOK.inl (frcL ch comm hs.1.1 l h))
        · exact ForceOK.inl (ForceOK.inr (frcL ch body hs.1.2 l h).tail)
      · exact ForceOK.inr (frcComms ch r hs.2 hdr his.tail l h)
    | simple k ln e pre ent post => simp [shapeComms] at hs
    | block ln e body => simp [shapeComms] at hs
    | labeled ln e inner => simp [shapeComms] at hs
    | ifS ln e init ir cr cond lb rb body els => simp [shapeComms] at hs
    | forS ln e init ir cr pr cond post lb rb body => simp [shapeComms] at hs
    | rangeS ln e kr vr xr kvx lb rb body => simp [shapeComms] at hs
    | switchS ln e init ir tr tag lb rb cl => simp [shapeComms] at hs
    | typeSwitchS ln e init ir ar asg lb rb cl => simp [shapeComms] at hs
    | selectS ln e lb rb cl => simp [shapeComms] at hs
    | caseC ln e lr list colon body => simp [shapeComms] at hs
theorem frcL (ch : Nat → Bool) (ss : List Stmt) (hs : shapeBody ss = true) : ∀ l, Ev.force l ∈ ctlL ch ss → ForceOK (blksL ss) l := by
  cases ss with
  | nil => intro l h; simp [ctlL] at h
  | cons s r =>
    intro l h
    simp only [shapeBody, Bool.and_eq_true] at hs
    simp only [ctlL] at h; simp only [blksL]
    rcases List.mem_append.mp h with h | h
    · exact (frcS ch s hs.1 l h).inl
    · exact (frcL ch r hs.2 l h).inr
end


/-! ### the control-statement pass emits force events only -/

theorem clauseForces_force : ∀ (cl : List Stmt), ∀ ev ∈ clauseForces cl, ev.isForce = true := by
  intro cl
  induction cl with
  | nil => intro ev h; simp [clauseForces] at h
  | cons c r ih =>
    intro ev h
    cases c with
    | caseC ln e lr list colon body =>
      simp only [clauseForces] at h
      rcases List.mem_append.mp h with h | h
      · split at h
        · cases h
        · simp at h; subst h; rfl
      · exact ih ev h
    | simple k ln e pre ent post => simp only [clauseForces] at h; exact ih ev h
    | block ln e body => simp only [clauseForces] at h; exact ih ev h
    | labeled ln e inner => simp only [clauseForces] at h; exact ih ev h
    | ifS ln e init ir cr cond lb rb body els => simp only [clauseForces] at h; exact ih ev h
    | forS ln e init ir cr pr cond post lb rb body => simp only [clauseForces] at h; exact ih ev h
    | rangeS ln e kr vr xr kvx lb rb body => simp only [clauseForces] at h; exact ih ev h
    | switchS ln e init ir tr tag lb rb cl => simp only [clauseForces] at h; exact ih ev h
    | typeSwitchS ln e init ir ar asg lb rb cl => simp only [clauseForces] at h; exact ih ev h
    | selectS ln e lb rb cl => simp only [clauseForces] at h; exact ih ev h
    | commC ln e cr comm colon body => simp only [clauseForces] at h; exact ih ev h

theorem elseForce_force (els : List Stmt) : ∀ ev ∈ elseForce els, ev.isForce = true := by
  intro ev h
  unfold elseForce at h
  split at h
  · split at h
    · cases h
    · simp at h; subst h; rfl
  · cases h

mutual
theorem ctlE_force (ch : Nat → Bool) (e : Expr) : ∀ ev ∈ ctlE ch e, ev.isForce = true := by
  cases e with
  | funcLit pl el lb rb first body => intro ev h; simp only [ctlE] at h; exact ctlL_force ch body ev h
  | call fn args =>
    intro ev h; simp only [ctlE] at h
    rcases List.mem_append.mp h with h | h
    · exact ctlEs_force ch fn ev h
    · exact ctlEs_force ch args ev h
  | composite typ elts =>
    intro ev h; simp only [ctlE] at h
    rcases List.mem_append.mp h with h | h
    · exact ctlEs_force ch typ ev h
    · exact ctlEs_force ch elts ev h
  | keyValue k v =>
    intro ev h; simp only [ctlE] at h
    rcases List.mem_append.mp h with h | h
    · exact ctlEs_force ch k ev h
    · exact ctlEs_force ch v ev h
  | unary x => intro ev h; simp only [ctlE] at h; exact ctlEs_force ch x ev h
  | structType fs => intro ev h; simp only [ctlE] at h; exact ctlEs_force ch fs ev h
  | other cs => intro ev h; simp only [ctlE] at h; exact ctlEs_force ch cs ev h
theorem ctlEs_force (ch : Nat → Bool) (es : List Expr) : ∀ ev ∈ ctlEs ch es, ev.isForce = true := by
  cases es with
  | nil => intro ev h; simp [ctlEs] at h
  | cons e r =>
    intro ev h; simp only [ctlEs] at h
    rcases List.mem_append.mp h with h | h
    · exact ctlE_force ch e ev h
    · exact ctlEs_force ch r ev h
theorem ctlS_force (ch : Nat → Bool) (s : Stmt) : ∀ ev ∈ ctlS ch s, ev.isForce = true := by
  cases s with
  | simple k ln e pre ent post =>
    intro ev h; simp only [ctlS] at h
    rcases List.mem_append.mp h with h | h
    · rcases List.mem_append.mp h with h | h
      · exact ctlEs_force ch pre ev h
      · exact ctlEs_force ch ent ev h
    · exact ctlEs_force ch post ev h
  | block ln e body => intro ev h; simp only [ctlS] at h; exact ctlL_force ch body ev h
  | labeled ln e inner => intro ev h; simp only [ctlS] at h; exact ctlS_force ch inner ev h
  | ifS ln e init ir cr cond lb rb body els =>
    intro ev h; rw [ctlS_if] at h
    rcases List.mem_append.mp h with h | h
    · rcases List.mem_append.mp h with h | h
      · rcases List.mem_append.mp h with h | h
        · rcases List.mem_append.mp h with h | h
          · split at h
            · rcases List.mem_cons.mp h with h | h
              · subst h; rfl
              · exact elseForce_force els ev h
            · cases h
          · exact ctlL_force ch init ev h
        · exact ctlEs_force ch cond ev h
      · exact ctlL_force ch body ev h
    · exact ctlL_force ch els ev h
  | forS ln e init ir cr pr cond post lb rb body =>
    intro ev h; simp only [ctlS] at h
    rcases List.mem_append.mp h with h | h
    · rcases List.mem_append.mp h with h | h
      · rcases List.mem_append.mp h with h | h
        · rcases List.mem_append.mp h with h | h
          · split at h
            · simp at h; subst h; rfl
            · cases h
          · exact ctlL_force ch init ev h
        · exact ctlEs_force ch cond ev h
      · exact ctlL_force ch post ev h
    · exact ctlL_force ch body ev h
  | rangeS ln e kr vr xr kvx lb rb body =>
    intro ev h; simp only [ctlS] at h
    rcases List.mem_append.mp h with h | h
    · rcases List.mem_append.mp h with h | h
      · split at h
        · simp at h; subst h; rfl
        · cases h
      · exact ctlEs_force ch kvx ev h
    · exact ctlL_force ch body ev h
  | switchS ln e init ir tr tag lb rb cl =>
    intro ev h; simp only [ctlS] at h
    rcases List.mem_append.mp h with h | h
    · rcases List.mem_append.mp h with h | h
      · rcases List.mem_append.mp h with h | h
        · split at h
          · exact clauseForces_force cl ev h
          · cases h
        · exact ctlL_force ch init ev h
      · exact ctlEs_force ch tag ev h
    · exact ctlL_force ch cl ev h
  | typeSwitchS ln e init ir ar asg lb rb cl =>
    intro ev h; simp only [ctlS] at h
    rcases List.mem_append.mp h with h | h
    · rcases List.mem_append.mp h with h | h
      · rcases List.mem_append.mp h with h | h
        · split at h
          · exact clauseForces_force cl ev h
          · cases h
        · exact ctlL_force ch init ev h
      · exact ctlL_force ch asg ev h
    · exact ctlL_force ch cl ev h
  | selectS ln e lb rb cl => intro ev h; simp only [ctlS] at h; exact ctlL_force ch cl ev h
  | caseC ln e lr list colon body =>
    intro ev h; simp only [ctlS] at h
    rcases List.mem_append.mp h with h | h
    · rcases List.mem_append.mp h with h | h
      · split at h
        · simp at h; subst h; rfl
        · cases h
      · exact ctlEs_force ch list ev h
    · exact ctlL_force ch body ev h
  | commC ln e cr comm colon body =>
    intro ev h; simp only [ctlS] at h
    rcases List.mem_append.mp h with h | h
    · rcases List.mem_append.mp h with h | h
      · split at h
        · simp at h; subst h; rfl
        · cases h
      · exact ctlL_force ch comm ev h
    · exact ctlL_force ch body ev h
theorem ctlL_force (ch : Nat → Bool) (ss : List Stmt) : ∀ ev ∈ ctlL ch ss, ev.isForce = true := by
  cases ss with
  | nil => intro ev h; simp [ctlL] at h
  | cons s r =>
    intro ev h; simp only [ctlL] at h
    rcases List.mem_append.mp h with h | h
    · exact ctlS_force ch s ev h
    · exact ctlL_force ch r ev h
end

theorem ctl_noCheck (ch : Nat → Bool) (ss : List Stmt) (l : Nat) : Ev.check l ∉ ctlL ch ss := by
  intro h
  have := ctlL_force ch ss _ h
  simp [Ev.isForce] at this

/-! ### declarations and files -/

/-! outermost function literals of an expression: they are literals of the right shape and
    their blocks are blocks of the expression -/
mutual
theorem outerE_sub (e : Expr) (hs : shapeE e = true) : ∀ x ∈ outerE e,
    shapeE x = true ∧ (∃ pl el lb rb first body, x = .funcLit pl el lb rb first body) ∧ ∀ b ∈ blksE x, b ∈ blksE e := by
  cases e with
  | funcLit pl el lb rb first body =>
    intro x hx
    simp only [outerE, List.mem_singleton] at hx
    subst hx
    exact ⟨hs, ⟨_, _, _, _, _, _, rfl⟩, fun _ hb => hb⟩
  | call fn args =>
    intro x hx
    simp only [shapeE, Bool.and_eq_true] at hs
    simp only [outerE] at hx
    rcases List.mem_append.mp hx with hx | hx
    · obtain ⟨h1, h2, h3⟩ := outerEs_sub fn hs.1 x hx
      exact ⟨h1, h2, fun b hb => by simp only [blksE]; exact List.mem_append_left _ (h3 b hb)⟩
    · obtain ⟨h1, h2, h3⟩ := outerEs_sub args hs.2 x hx
      exact ⟨h1, h2, fun b hb => by simp only [blksE]; exact List.mem_append_right _ (h3 b hb)⟩
  | composite typ elts =>
    intro x hx
    simp only [shapeE, Bool.and_eq_true] at hs
    simp only [outerE] at hx
    rcases List.mem_append.mp hx with hx | hx
    · obtain ⟨h1, h2, h3⟩ := outerEs_sub typ hs.1 x hx
      exact ⟨h1, h2, fun b hb => by simp only [blksE]; exact List.mem_append_left _ (h3 b hb)⟩
    · obtain ⟨h1, h2, h3⟩ := outerEs_sub elts hs.2 x hx
      exact ⟨h1, h2, fun b hb => by simp only [blksE]; exact List.mem_append_right _ (h3 b hb)⟩
  | keyValue k v =>
    intro x hx
    simp only [shapeE, Bool.and_eq_true] at hs
    simp only [outerE] at hx
    rcases List.mem_append.mp hx with hx | hx
    · obtain ⟨h1, h2, h3⟩ := outerEs_sub k hs.1 x hx
      exact ⟨h1, h2, fun b hb => by simp only [blksE]; exact List.mem_append_left _ (h3 b hb)⟩
    · obtain ⟨h1, h2, h3⟩ := outerEs_sub v hs.2 x hx
      exact ⟨h1, h2, fun b hb => by simp only [blksE]; exact List.mem_append_right _ (h3 b hb)⟩
  | unary y =>
    intro x hx
    simp only [shapeE] at hs
    simp only [outerE] at hx
    obtain ⟨h1, h2, h3⟩ := outerEs_sub y hs x hx
    exact ⟨h1, h2, fun b hb => by simp only [blksE]; exact h3 b hb⟩
  | structType fs =>
    intro x hx
    simp only [shapeE] at hs
    simp only [outerE] at hx
    obtain ⟨h1, h2, h3⟩ := outerEs_sub fs hs x hx
    exact ⟨h1, h2, fun b hb => by simp only [blksE]; exact h3 b hb⟩
  | other cs =>
    intro x hx
    simp only [shapeE] at hs
    simp only [outerE] at hx
    obtain ⟨h1, h2, h3⟩ := outerEs_sub cs hs x hx
    exact ⟨h1, h2, fun b hb => by simp only [blksE]; exact h3 b hb⟩
theorem outerEs_sub (es : List Expr) (hs : shapeEs es = true) : ∀ x ∈ outerEs es,
    shapeE x = true ∧ (∃ pl el lb rb first body, x = .funcLit pl el lb rb first body) ∧ ∀ b ∈ blksE x, b ∈ blksEs es := by
  cases es with
  | nil => intro x hx; simp [outerEs] at hx
  | cons e r =>
    intro x hx
    simp only [shapeEs, Bool.and_eq_true] at hs
    simp only [outerEs] at hx
    rcases List.mem_append.mp hx with hx | hx
    · obtain ⟨h1, h2, h3⟩ := outerE_sub e hs.1 x hx
      exact ⟨h1, h2, fun b hb => by simp only [blksEs]; exact List.mem_append_left _ (h3 b hb)⟩
    · obtain ⟨h1, h2, h3⟩ := outerEs_sub r hs.2 x hx
      exact ⟨h1, h2, fun b hb => by simp only [blksEs]; exact List.mem_append_right _ (h3 b hb)⟩
end

/-- the statements of a function declaration whose body is on one line -/
def OneLinerCheck (d : Decl) (l : Nat) : Prop :=
  ∃ lb rb first stmts, d = .funcDecl (some (lb, rb, first, stmts)) ∧ lb = rb ∧ Ev.check l ∈ evL stmts

theorem decl_check (ch : Nat → Bool) (d : Decl) (hs : shapeD d = true) :
    ∀ l, Ev.check l ∈ declEvents ch d → CheckOK (declBlks d) l ∨ OneLinerCheck d l := by
  intro l h
  cases d with
  | funcDecl body =>
    cases body with
    | none => simp [declEvents] at h
    | some t =>
      obtain ⟨lb, rb, first, stmts⟩ := t
      simp only [shapeD] at hs
      cases first with
      | none => simp [declEvents] at h
      | some p =>
        obtain ⟨fl, fc⟩ := p
        simp only [declEvents] at h
        by_cases hlr : lb = rb
        · right
          refine ⟨lb, rb, _, stmts, rfl, hlr, ?_⟩
          rcases List.mem_append.mp h with h | h
          · rcases List.mem_append.mp h with h | h
            · split at h <;> simp at h
            · exact h
          · exact absurd h (by
              intro hc
              have := ctl_noCheck ch stmts l
              exact this hc)
        · left
          simp only [declBlks]
          rcases List.mem_append.mp h with h | h
          · rcases List.mem_append.mp h with h | h
            · split at h <;> simp at h
            · rcases chkL stmts hs l h with h1 | h1
              · exact ⟨_, List.mem_cons_self .., h1, multi_of_ne hlr⟩
              · exact h1.tail
          · exact absurd h (ctl_noCheck ch stmts l)
  | genDecl vs =>
    simp only [shapeD] at hs
    simp only [declEvents] at h
    left
    simp only [declBlks]
    rcases List.mem_append.mp h with h | h
    · obtain ⟨x, hx, hev⟩ := List.mem_flatMap.mp h
      obtain ⟨h1, ⟨pl, el, lb, rb, first, body, rfl⟩, h3⟩ := outerEs_sub vs hs x hx
      simp only [shapeE, Bool.and_eq_true] at h1
      simp only [globalLitEvents] at hev
      split at hev
      · cases hev
      · split at hev
        · simp at hev
        · next hne =>
          have hlr : lb ≠ rb := by simpa using hne
          have hb0 : (⟨lb, rb, entriesOf body, []⟩ : Blk) ∈ blksEs vs := h3 _ (by simp only [blksE]; exact List.mem_cons_self ..)
          rcases chkL body h1.2 l hev with h4 | h4
          · exact ⟨_, hb0, h4, multi_of_ne hlr⟩
          · exact h4.mono (fun b hb => h3 b (by simp only [blksE]; exact List.mem_cons_of_mem _ hb))
    · obtain ⟨x, hx, hev⟩ := List.mem_flatMap.mp h
      obtain ⟨h1, ⟨pl, el, lb, rb, first, body, rfl⟩, h3⟩ := outerEs_sub vs hs x hx
      simp only [globalLitCtl] at hev
      exact absurd hev (ctl_noCheck ch body l)

theorem decl_force (ch : Nat → Bool) (d : Decl) (hs : shapeD d = true) :
    ∀ l, Ev.force l ∈ declEvents ch d → ForceOK (declBlks d) l := by
  intro l h
  cases d with
  | funcDecl body =>
    cases body with
    | none => simp [declEvents] at h
    | some t =>
      obtain ⟨lb, rb, first, stmts⟩ := t
      simp only [shapeD] at hs
      cases first with
      | none => simp [declEvents] at h
      | some p =>
        obtain ⟨fl, fc⟩ := p
        simp only [declEvents] at h
        simp only [declBlks]
        rcases List.mem_append.mp h with h | h
        · rcases List.mem_append.mp h with h | h
          · split at h <;> simp at h
          · exact absurd (evL_noForce stmts _ h) (by simp [Ev.isForce])
        · exact (frcL ch stmts hs l h).tail
  | genDecl vs =>
    simp only [shapeD] at hs
    simp only [declEvents] at h
    simp only [declBlks]
    rcases List.mem_append.mp h with h | h
    · obtain ⟨x, hx, hev⟩ := List.mem_flatMap.mp h
      obtain ⟨h1, ⟨pl, el, lb, rb, first, body, rfl⟩, h3⟩ := outerEs_sub vs hs x hx
      simp only [globalLitEvents] at hev
      split at hev
      · cases hev
      · split at hev
        · simp at hev
        · exact absurd (evL_noForce body _ hev) (by simp [Ev.isForce])
    · obtain ⟨x, hx, hev⟩ := List.mem_flatMap.mp h
      obtain ⟨h1, ⟨pl, el, lb, rb, first, body, rfl⟩, h3⟩ := outerEs_sub vs hs x hx
      simp only [shapeE, Bool.and_eq_true] at h1
      simp only [globalLitCtl] at hev
      exact (frcL ch body h1.2 l hev).mono (fun b hb => h3 b (by simp only [blksE]; exact List.mem_cons_of_mem _ hb))


/-! ### func granularity: the scope found by `searchScopes` -/

theorem searchScopes_spec (scopes : List (Nat × Nat)) (line : Nat) (h : searchScopes scopes line ≠ 0) :
    ∃ p, scopes[searchScopes scopes line]? = some p ∧ p.1 < line ∧ line < p.2 := by
  unfold searchScopes at h ⊢
  have key : ∀ (l : List ((Nat × Nat) × Nat)) (init : Nat),
      (∀ q ∈ l, scopes[q.2]? = some q.1) →
      let r := l.foldl (fun idx (p : (Nat × Nat) × Nat) => if p.1.1 < line && line < p.1.2 then p.2 else idx) init
      r = init ∨ ∃ p, scopes[r]? = some p ∧ p.1 < line ∧ line < p.2 := by
    intro l
    induction l with
    | nil => intro init _; exact Or.inl rfl
    | cons q rest ih =>
      intro init hq
      simp only [List.foldl_cons]
      have hrest : ∀ q' ∈ rest, scopes[q'.2]? = some q'.1 := fun q' h' => hq q' (List.mem_cons_of_mem _ h')
      by_cases hc : (decide (q.1.1 < line) && decide (line < q.1.2)) = true
      · simp only [hc, if_true]
        rcases ih q.2 hrest with h1 | h1
        · right
          rw [h1]
          simp only [Bool.and_eq_true, decide_eq_true_eq] at hc
          exact ⟨q.1, hq q (List.mem_cons_self ..), hc.1, hc.2⟩
        · exact Or.inr h1
      · simp only [hc]
        exact ih init hrest
  rcases key scopes.zipIdx 0 (fun q hq => List.mem_zipIdx_iff_getElem?.mp hq) with h1 | h1
  · exact absurd h1 h
  · exact h1

end GoatSpec
