import GoatSpec.Sched
/-! # helper lemmas for C08 (worker pools, sorting by unique path, whole-file writes, interleavings) -/
namespace GoatSpec.Sched

/-! ## results written by index -/

theorem complete_length {α β : Type} (f : α → β) (tasks : List α) (res : List (Option β)) (i : Nat) :
    (complete f tasks res i).length = res.length := by
  unfold complete
  split <;> simp

theorem foldl_complete_length {α β : Type} (f : α → β) (tasks : List α) :
    ∀ (order : List Nat) (res : List (Option β)), (order.foldl (complete f tasks) res).length = res.length
  | [], _ => rfl
  | i :: r, res => by
    simp only [List.foldl_cons]
    rw [foldl_complete_length f tasks r, complete_length]

theorem foldl_complete_get {α β : Type} (f : α → β) (tasks : List α) :
    ∀ (order : List Nat) (res : List (Option β)) (j : Nat), j < tasks.length → res.length = tasks.length →
      (order.foldl (complete f tasks) res)[j]? = if j ∈ order then some (tasks[j]?.map f) else res[j]?
  | [], res, j, _, _ => by simp
  | i :: r, res, j, hj, hl => by
    simp only [List.foldl_cons]
    rw [foldl_complete_get f tasks r _ j hj (by rw [complete_length]; exact hl)]
    by_cases hr : j ∈ r
    · simp [hr]
    · simp only [hr, if_false, List.mem_cons, or_false]
      by_cases hji : j = i
      · subst hji
        have ht : tasks[j]? = some tasks[j] := List.getElem?_eq_getElem hj
        simp only [if_true, complete, ht, Option.map_some]
        rw [List.getElem?_set_self (by omega)]
      · simp only [hji, if_false, complete]
        split
        · rw [List.getElem?_set_ne (by omega)]
        · rfl

/-! ## filterValidFileChanges -/

theorem filterValid_nil {α : Type} : filterValid ([] : List (Option α)) = [] := by
  unfold filterValid; rfl

theorem filterValid_some {α : Type} (x : α) (r : List (Option α)) :
    filterValid (some x :: r) = x :: filterValid r := by
  rw [filterValid]

theorem filterValid_perm {α : Type} (l : List (Option α)) : (filterValid l).Perm (l.filterMap id) := by
  induction l using filterValid.induct with
  | case1 => rw [filterValid_nil]; exact List.Perm.refl _
  | case2 x r ih => rw [filterValid_some]; simpa using ih
  | case3 r h =>
    have hr : r = [] := by simpa using h
    subst hr
    rw [filterValid.eq_3]
    split
    · simp
    · next hh => simp at hh
  | case4 r last h ih =>
    have hne : r ≠ [] := by intro h0; subst h0; simp at h
    have hlast : last = r.getLast hne := by
      have := List.getLast?_eq_some_getLast hne
      rw [h] at this
      exact Option.some.inj this
    have hfv : filterValid (none :: r) = filterValid (last :: r.dropLast) := by
      rw [filterValid.eq_3]
      split
      · next hh => rw [h] at hh; cases hh
      · next l2 hh => rw [h] at hh; cases hh; rfl
    rw [hfv]
    have hr : r.dropLast ++ [last] = r := by rw [hlast]; exact List.dropLast_concat_getLast hne
    have hp : (last :: r.dropLast).Perm r := by
      have : (last :: r.dropLast).Perm (r.dropLast ++ [last]) := (List.perm_append_singleton last r.dropLast).symm
      rwa [hr] at this
    have := ih.trans (hp.filterMap id)
    simpa using this

/-! ## sorting by unique path -/

theorem insertByPath_perm {β : Type} (x : String × β) : ∀ l : List (String × β), (insertByPath x l).Perm (x :: l)
  | [] => List.Perm.refl _
  | y :: ys => by
    simp only [insertByPath]
    split
    · exact List.Perm.refl _
    · exact ((insertByPath_perm x ys).cons y).trans (List.Perm.swap x y ys)

theorem sortByPath_perm {β : Type} : ∀ l : List (String × β), (sortByPath l).Perm l
  | [] => List.Perm.refl _
  | x :: xs => by
    simp only [sortByPath, List.foldr_cons]
    exact (insertByPath_perm x _).trans ((sortByPath_perm xs).cons x)

theorem sorted_insertByPath {β : Type} (x : String × β) :
    ∀ l : List (String × β), SortedByPath l → SortedByPath (insertByPath x l)
  | [], _ => by simp [insertByPath, SortedByPath]
  | y :: ys, h => by
    simp only [insertByPath]
    have hy := List.pairwise_cons.mp h
    split
    · next hle =>
      refine List.pairwise_cons.mpr ⟨?_, h⟩
      intro z hz
      rcases List.mem_cons.mp hz with rfl | hz'
      · exact hle
      · exact String.le_trans hle (hy.1 z hz')
    · next hnle =>
      have hyx : y.1 ≤ x.1 := by
        rcases String.le_total x.1 y.1 with h1 | h1
        · exact absurd h1 hnle
        · exact h1
      refine List.pairwise_cons.mpr ⟨?_, sorted_insertByPath x ys hy.2⟩
      intro z hz
      rcases List.mem_cons.mp ((insertByPath_perm x ys).mem_iff.mp hz) with rfl | hz'
      · exact hyx
      · exact hy.1 z hz'

theorem sortByPath_sorted {β : Type} : ∀ l : List (String × β), SortedByPath (sortByPath l)
  | [] => List.Pairwise.nil
  | x :: xs => by
    simp only [sortByPath, List.foldr_cons]
    exact sorted_insertByPath x _ (sortByPath_sorted xs)

/-- two sorted permutations of each other are equal when the order is antisymmetric on the elements -/
theorem sorted_perm_eq {α : Type} (le : α → α → Prop) :
    ∀ (l₁ l₂ : List α), (∀ a ∈ l₁, ∀ b ∈ l₁, le a b → le b a → a = b) →
      l₁.Pairwise le → l₂.Pairwise le → l₁.Perm l₂ → l₁ = l₂
  | [], l₂, _, _, _, p => (List.Perm.nil_eq p)
  | a :: r₁, [], _, _, _, p => absurd p.symm (by simp)
  | a :: r₁, b :: r₂, anti, s₁, s₂, p => by
    have h1 := List.pairwise_cons.mp s₁
    have h2 := List.pairwise_cons.mp s₂
    have hab : a = b := by
      have ha : a ∈ b :: r₂ := p.mem_iff.mp (by simp)
      have hb : b ∈ a :: r₁ := p.mem_iff.mpr (by simp)
      rcases List.mem_cons.mp ha with h | ha'
      · exact h
      · rcases List.mem_cons.mp hb with h | hb'
        · exact h.symm
        · exact anti a (by simp) b hb (h1.1 b hb') (h2.1 a ha')
    subst hab
    have p' : r₁.Perm r₂ := List.Perm.cons_inv p
    have := sorted_perm_eq le r₁ r₂ (fun x hx y hy => anti x (List.mem_cons_of_mem _ hx) y (List.mem_cons_of_mem _ hy)) h1.2 h2.2 p'
    rw [this]

theorem eq_of_path_eq {β : Type} {a b : String × β} : ∀ (l : List (String × β)), (l.map (·.1)).Nodup →
    a ∈ l → b ∈ l → a.1 = b.1 → a = b
  | [], _, h, _, _ => by simp at h
  | x :: xs, nd, ha, hb, hk => by
    simp only [List.map_cons, List.nodup_cons] at nd
    rcases List.mem_cons.mp ha with ha1 | ha1 <;> rcases List.mem_cons.mp hb with hb1 | hb1
    · rw [ha1, hb1]
    · subst ha1
      exact absurd (List.mem_map.mpr ⟨b, hb1, hk.symm⟩ : a.1 ∈ xs.map (·.1)) nd.1
    · subst hb1
      exact absurd (List.mem_map.mpr ⟨a, ha1, hk⟩ : b.1 ∈ xs.map (·.1)) nd.1
    · exact eq_of_path_eq xs nd.2 ha1 hb1 hk

theorem path_antisymm {β : Type} (l : List (String × β)) (nd : (l.map (·.1)).Nodup) :
    ∀ a ∈ l, ∀ b ∈ l, a.1 ≤ b.1 → b.1 ≤ a.1 → a = b := by
  intro a ha b hb h1 h2
  exact eq_of_path_eq l nd ha hb (String.le_antisymm h1 h2)

/-! ## whole-file writes -/

theorem applyWrites_not_mem (p : String) : ∀ (ws : List (String × String)) (t : Tree),
    p ∉ ws.map (·.1) → applyWrites t ws p = t p
  | [], _, _ => rfl
  | w :: r, t, h => by
    simp only [List.map_cons, List.mem_cons, not_or] at h
    simp only [applyWrites, List.foldl_cons]
    have := applyWrites_not_mem p r (write t w) h.2
    simp only [applyWrites] at this
    rw [this]
    simp [write, h.1]

theorem applyWrites_mem (p c : String) : ∀ (ws : List (String × String)) (t : Tree),
    (ws.map (·.1)).Nodup → (p, c) ∈ ws → applyWrites t ws p = some c
  | [], _, _, h => by simp at h
  | w :: r, t, nd, h => by
    simp only [List.map_cons, List.nodup_cons] at nd
    simp only [applyWrites, List.foldl_cons]
    rcases List.mem_cons.mp h with h | h
    · subst h
      have := applyWrites_not_mem p r (write t (p, c)) nd.1
      simp only [applyWrites] at this
      rw [this]
      simp [write]
    · have := applyWrites_mem p c r (write t w) nd.2 h
      simpa only [applyWrites] using this

/-! ## interleavings -/

theorem flatten_all_nil {α : Type} : ∀ {ls : List (List α)}, (∀ l ∈ ls, l = []) → ls.flatten = []
  | [], _ => rfl
  | l :: t, h => by
    have h1 : l = [] := h l (by simp)
    have h2 := flatten_all_nil (ls := t) (fun x hx => h x (by simp [hx]))
    simp [h1, h2]

theorem flatten_take_perm {α : Type} : ∀ {ls : List (List α)} {i : Nat} {x : α} {rest : List α},
    ls[i]? = some (x :: rest) → ls.flatten.Perm (x :: (ls.set i rest).flatten)
  | [], i, _, _, h => by simp at h
  | l :: t, 0, x, rest, h => by
    simp only [List.getElem?_cons_zero, Option.some.injEq] at h
    subst h
    simp
  | l :: t, i + 1, x, rest, h => by
    simp only [List.getElem?_cons_succ] at h
    have ih := flatten_take_perm (ls := t) h
    simp only [List.set_cons_succ, List.flatten_cons]
    exact ((List.Perm.append_left l ih).trans List.perm_middle)

theorem Interleave.perm {α : Type} {ls : List (List α)} {s : List α} (h : Interleave ls s) : s.Perm ls.flatten := by
  induction h with
  | done hn => rw [flatten_all_nil hn]
  | step i rest hi _ ih => exact ((flatten_take_perm hi).trans (List.Perm.cons _ ih.symm)).symm

theorem orRun_eq (steps : List Bool) : ∀ init : Bool, orRun init steps = (init || steps.any id) := by
  induction steps with
  | nil => intro init; simp [orRun]
  | cons u r ih =>
    intro init
    simp only [orRun, List.foldl_cons, List.any_cons, id] at ih ⊢
    rw [ih (init || u)]
    simp [Bool.or_assoc]

theorem any_perm {l₁ l₂ : List Bool} (p : l₁.Perm l₂) : l₁.any id = l₂.any id := by
  induction p with
  | nil => rfl
  | cons x _ ih => simp [ih]
  | swap x y l => simp [Bool.or_left_comm]
  | trans _ _ ih1 ih2 => exact ih1.trans ih2

end GoatSpec.Sched
