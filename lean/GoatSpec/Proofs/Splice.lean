import GoatSpec.Splice
/-! # Lemmas about `doInsert` (ported from the design-phase spikes) -/
namespace GoatSpec
variable {α : Type}

theorem spec1_nil (block : List α) (i : Nat) (src : List α) : spec1 block i src [] = src := by
  induction src generalizing i with
  | nil => rfl
  | cons s rest ih => simp [spec1, ih]

/-- a position below every remaining line number is irrelevant -/
theorem spec1_drop_small (block : List α) (i x : Nat) (src : List α) (ps : List Nat) (hx : x < i + 1) :
    spec1 block i src (x :: ps) = spec1 block i src ps := by
  induction src generalizing i with
  | nil => rfl
  | cons s rest ih =>
    have hne : i + 1 ≠ x := by omega
    simp only [spec1, List.mem_cons, hne, false_or]
    rw [ih (i+1) (by omega)]

/-- the loop-faithful first pass (early exit, joined tail) equals its specification -/
theorem pass1_eq_spec1 (block : List α) (i : Nat) (src : List α) (ps : List Nat)
    (h : Incr (i+1) ps) : pass1 block i src ps = spec1 block i src ps := by
  induction src generalizing i ps with
  | nil => cases ps <;> rfl
  | cons s rest ih =>
    cases ps with
    | nil => simp [pass1, spec1_nil]
    | cons p ps =>
      obtain ⟨hp, hps⟩ := h
      by_cases hi : i = p - 1
      · have hpe : p = i + 1 := by omega
        subst hpe
        simp only [pass1, spec1, Nat.add_sub_cancel, if_true, List.mem_cons, true_or]
        rw [ih (i+1) ps hps, spec1_drop_small block (i+1) (i+1) rest ps (by omega)]
      · have hlt : i + 1 < p := by omega
        have hnot : (i+1) ∉ (p :: ps) := by
          intro hm
          rcases List.mem_cons.mp hm with h1 | h1
          · omega
          · exact (hps.not_mem (x := i+1) (by omega)) h1
        simp only [pass1, if_neg hi, spec1, if_neg hnot, List.nil_append]
        rw [ih (i+1) (p :: ps) ⟨by omega, hps⟩]

/-- additivity of the specification: removing the block lines gives the source back -/
theorem spec1_filter (block : List α) (isBlock : α → Bool) (hb : ∀ b ∈ block, isBlock b = true)
    (i : Nat) (src : List α) (ps : List Nat) (hs : ∀ s ∈ src, isBlock s = false) :
    (spec1 block i src ps).filter (fun x => !isBlock x) = src := by
  induction src generalizing i with
  | nil => rfl
  | cons s rest ih =>
    have h1 : isBlock s = false := hs s (by simp)
    have hrest := ih (i+1) (fun x hx => hs x (by simp [hx]))
    simp only [spec1]
    split
    · rw [List.filter_append]
      have : block.filter (fun x => !isBlock x) = [] := by
        apply List.filter_eq_nil_iff.mpr; intro b hb'; simp [hb b hb']
      simp [this, h1, hrest]
    · simp [h1, hrest]

/-- number of blocks the specification writes = number of positions within the source -/
theorem spec1_length (block : List α) (i : Nat) (src : List α) (ps : List Nat) (h : Incr (i+1) ps)
    (hn : ∀ p ∈ ps, p ≤ i + src.length) :
    (spec1 block i src ps).length = src.length + block.length * ps.length := by
  induction src generalizing i ps with
  | nil =>
    cases ps with
    | nil => simp [spec1]
    | cons p ps => have := hn p (by simp); have := h.1; simp at *; omega
  | cons s rest ih =>
    simp only [spec1, List.length_append, List.length_cons]
    cases ps with
    | nil => simp [spec1_nil]
    | cons p ps =>
      obtain ⟨hp, hps⟩ := h
      by_cases hi : i + 1 = p
      · subst hi
        rw [spec1_drop_small block (i+1) (i+1) rest ps (by omega)]
        rw [ih (i+1) ps hps (by intro q hq; have := hn q (by simp [hq]); simp at this; omega)]
        simp [Nat.mul_add]; omega
      · have hnot : (i+1) ∉ (p :: ps) := by
          intro hm
          rcases List.mem_cons.mp hm with h1 | h1
          · omega
          · exact (hps.not_mem (x := i+1) (by omega)) h1
        rw [if_neg hnot]
        rw [ih (i+1) (p :: ps) ⟨by omega, hps⟩ (by intro q hq; have := hn q hq; simp at this; omega)]
        simp; omega

/-! ## the delta array -/

theorem pre_zeros (a : Nat) (r : List Nat) : pre a (r.map (fun _ => 0)) = r.map (fun _ => a) := by
  induction r generalizing a with
  | nil => rfl
  | cons x xs ih => simp [pre, ih]

theorem cntLe_nil (s : Nat) : cntLe [] s = 0 := rfl
theorem cntLe_cons_le (m s : Nat) (ms : List Nat) (h : m ≤ s) : cntLe (m :: ms) s = cntLe ms s + 1 := by
  simp [cntLe, List.filter, h]
theorem cntLe_cons_gt (m s : Nat) (ms : List Nat) (h : s < m) : cntLe (m :: ms) s = cntLe ms s := by
  have : ¬ m ≤ s := by omega
  simp [cntLe, List.filter, this]
theorem cntLe_all_gt (ms : List Nat) (lo s : Nat) (h : Incr lo ms) (hs : s < lo) : cntLe ms s = 0 := by
  induction ms generalizing lo with
  | nil => rfl
  | cons m ms ih =>
    rw [cntLe_cons_gt _ _ _ (by have := h.1; omega)]
    exact ih (m+1) h.2 (by have := h.1; omega)

theorem exit_case (acc delta B : Nat) (ss : List Nat) :
    pre acc (arrOf (([] : List Nat), delta, ss)) = ss.map (fun s => acc + delta + B * cntLe [] s) := by
  cases ss with
  | nil => rfl
  | cons s t => simp [arrOf, pre, pre_zeros, cntLe_nil]

theorem scan_spec (B : Nat) (fuel i : Nat) (ms ss : List Nat) (delta acc : Nat)
    (hm : Incr (i+1) ms) (hs : Incr (i+1) ss) (hfuel : ∀ m ∈ ms, m ≤ i + fuel) :
    pre acc (arrOf (scan B fuel i ms ss delta)) = ss.map (fun s => acc + delta + B * cntLe ms s) := by
  induction fuel generalizing i ms ss delta acc with
  | zero =>
    have hms : ms = [] := by
      cases ms with
      | nil => rfl
      | cons m t => have := hfuel m (by simp); have := hm.1; omega
    subst hms
    simpa [scan] using exit_case acc delta B ss
  | succ fuel ih =>
    cases ms with
    | nil => simpa [scan] using exit_case acc delta B ss
    | cons m ms =>
      obtain ⟨hm1, hm2⟩ := hm
      have key : ∃ delta1 ms1, delta1 = (if i = m - 1 then delta + B else delta) ∧
          ms1 = (if i = m - 1 then ms else m :: ms) ∧ Incr (i+1+1) ms1 ∧
          (∀ x ∈ ms1, x ≤ (i+1) + fuel) ∧
          (∀ s, i + 1 ≤ s → delta1 + B * cntLe ms1 s = delta + B * cntLe (m :: ms) s) := by
        by_cases him : i = m - 1
        · have hme : m = i + 1 := by omega
          refine ⟨delta + B, ms, by simp [him], by simp [him], by subst hme; exact hm2, ?_, ?_⟩
          · intro x hx; have := hfuel x (by simp [hx]); omega
          · intro s hs'; rw [cntLe_cons_le _ _ _ (by omega)]; simp [Nat.mul_add, Nat.add_assoc, Nat.add_comm B]
        · refine ⟨delta, m :: ms, by simp [him], by simp [him], ⟨by omega, hm2⟩, ?_, ?_⟩
          · intro x hx; have := hfuel x hx; omega
          · intro s _; rfl
      obtain ⟨delta1, ms1, hd, hms1, hinc, hf1, hF⟩ := key
      cases ss with
      | nil =>
        have := ih (i+1) ms1 [] delta1 acc hinc trivial hf1
        simp only [scan, ← hd, ← hms1]
        simpa using this
      | cons s t =>
        obtain ⟨hs1, hs2⟩ := hs
        by_cases his : i = s - 1
        · have hse : s = i + 1 := by omega
          subst hse
          have := ih (i+1) ms1 t 0 (acc + delta1) hinc hs2 hf1
          simp only [scan, ← hd, ← hms1, Nat.add_sub_cancel, if_true]
          simp only [arrOf, List.cons_append, pre, List.map_cons] at this ⊢
          have h0 : cntLe ms1 (i+1) = 0 := cntLe_all_gt ms1 (i+1+1) (i+1) hinc (by omega)
          have hhead := hF (i+1) (Nat.le_refl _)
          rw [h0] at hhead
          congr 1
          · omega
          · rw [this]
            apply List.map_congr_left
            intro x hx
            have hx2 : i + 1 ≤ x := by have := hs2.ge hx; omega
            have := hF x hx2
            omega
        · have hs' : Incr (i+1+1) (s :: t) := ⟨by omega, hs2⟩
          have := ih (i+1) ms1 (s :: t) delta1 acc hinc hs' hf1
          simp only [scan, ← hd, ← hms1, if_neg his]
          rw [this]
          apply List.map_congr_left
          intro x hx
          have hx2 : i + 1 ≤ x := by
            rcases List.mem_cons.mp hx with rfl | hx'
            · exact hs1
            · have := hs2.ge hx'; omega
          have := hF x hx2
          omega

end GoatSpec
