import GoatSpec.Proofs.Text
/-! # Lemmas for the composed clean / patch passes -/
namespace GoatSpec

theorem pass_items (k : Mk) (hk : k ≠ .endm) (rit : List Item) (items : List Item)
    (hwf : ∀ it ∈ items, it.wf = true) :
    pass k (flatten rit) (flatten items) = (cntK k items, flatten (passI k rit [] items)) := by
  have := pass_flatten k hk rit items hwf [] (by simp)
  simpa [flatten_nil] using this

theorem cntK_cons (k : Mk) (it : Item) (r : List Item) :
    cntK k (it :: r) = (if isK k it then 1 else 0) + cntK k r := by
  simp only [cntK, List.filter_cons]; split <;> simp <;> omega

theorem cntK_append (k : Mk) (a b : List Item) : cntK k (a ++ b) = cntK k a + cntK k b := by
  simp [cntK]

theorem isK_excl {k k' : Mk} (hne : k ≠ k') {it : Item} (h' : isK k' it = true) : isK k it = false := by
  cases hk : isK k it with
  | false => rfl
  | true =>
    simp only [isK, beq_iff_eq] at hk h'
    rw [hk] at h'; injection h' with h'; exact absurd h' hne

theorem cntK_replaceK_other (k k' : Mk) (hne : k ≠ k') (rit : List Item) (hr : cntK k rit = 0) (items : List Item) :
    cntK k (replaceK k' rit items) = cntK k items := by
  induction items with
  | nil => rfl
  | cons it r ih =>
    rw [replaceK_cons, cntK_append, cntK_cons, ih]
    cases h' : isK k' it with
    | false => simp only [Bool.false_eq_true, if_false]; rw [cntK_cons]; simp [cntK]
    | true => simp [isK_excl hne h', hr]

/-- the count a later pass sees equals the count in the original arrangement -/
theorem cntK_passI_other (k k' : Mk) (hne : k ≠ k') (rit : List Item) (hrit : dBU rit = rit)
    (hr : cntK k rit = 0) (items : List Item) :
    cntK k (passI k' rit [] items) = cntK k items := by
  rw [← cntK_dBU, dBU_passI k' rit hrit items [] (by simp), cntK_replaceK_other k k' hne rit hr, cntK_dBU]

theorem wf_kind {it : Item} (h : it.wf = true) :
    it.kind = none ∨ it.kind = some .generate ∨ it.kind = some .delete ∨ it.kind = some .main
      ∨ it.kind = some .user ∨ it.kind = some .insert := by
  cases it with
  | user x => simp [Item.kind]
  | ins x => simp [Item.kind]
  | block k s b e =>
    simp only [Item.wf, Bool.and_eq_true, blockKind, Bool.or_eq_true, beq_iff_eq] at h
    rcases h.1.1.1 with ((h | h) | h) | h <;> simp [Item.kind, h]

theorem cntK_pos_iff (k : Mk) (items : List Item) : (decide (cntK k items > 0)) = items.any (isK k) := by
  induction items with
  | nil => rfl
  | cons it r ih =>
    rw [cntK_cons, List.any_cons, ← ih]
    cases h : isK k it <;> simp <;> omega

theorem any_kind_wf (items : List Item) (hwf : ∀ it ∈ items, it.wf = true) :
    items.any (fun it => it.kind.isSome) =
      (items.any (isK .delete) || items.any (isK .insert) || items.any (isK .generate)
        || items.any (isK .main) || items.any (isK .user)) := by
  induction items with
  | nil => rfl
  | cons it r ih =>
    have hr := ih (fun i hi => hwf i (by simp [hi]))
    simp only [List.any_cons, hr]
    generalize r.any (isK Mk.delete) = a1
    generalize r.any (isK Mk.insert) = a2
    generalize r.any (isK Mk.generate) = a3
    generalize r.any (isK Mk.main) = a4
    generalize r.any (isK Mk.user) = a5
    rcases wf_kind (hwf it (by simp)) with h | h | h | h | h | h <;>
      simp [isK, h] <;> cases a1 <;> cases a2 <;> cases a3 <;> cases a4 <;> cases a5 <;> rfl

theorem filter5_wf (X : List Item) (hwf : ∀ it ∈ X, it.wf = true) :
    replaceK .user [] (replaceK .main [] (replaceK .generate [] (replaceK .insert [] (replaceK .delete [] X))))
      = X.filter (fun it => it.kind.isNone) := by
  simp only [replaceK_nil_eq_filter, List.filter_filter]
  apply List.filter_congr
  intro it hit
  rcases wf_kind (hwf it hit) with h | h | h | h | h | h <;> simp [isK, h]

theorem dBU_filter_comm (p : Item → Bool) (X : List Item) : dBU (X.filter p) = (dBU X).filter p := by
  simp only [dBU, List.filter_filter]
  apply List.filter_congr; intro a _; exact Bool.and_comm _ _

theorem wf_dBU (X : List Item) (h : ∀ it ∈ X, it.wf = true) : ∀ it ∈ dBU X, it.wf = true := by
  intro it hit; exact h it (List.mem_filter.mp hit).1

theorem flatten_users_plain (X : List Item) (hwf : ∀ it ∈ X, it.wf = true) (hk : ∀ it ∈ X, it.kind = none) :
    (flatten X).all plain = true := by
  induction X with
  | nil => rfl
  | cons it r ih =>
    have h1 := hwf it (by simp)
    have h2 := hk it (by simp)
    have hr := ih (fun i hi => hwf i (by simp [hi])) (fun i hi => hk i (by simp [hi]))
    cases it with
    | user x => simp only [Item.wf] at h1; simp [flatten_cons, Item.lines, h1]; simpa using hr
    | block k s b e => simp [Item.kind] at h2
    | ins x => simp [Item.kind] at h2

theorem kind_none_of_dBU (X : List Item) (h : ∀ it ∈ dBU X, it.kind = none) : ∀ it ∈ X, it.kind = none := by
  intro it hit
  cases hbu : it.isBlankUser with
  | true => cases it <;> simp [Item.isBlankUser, Item.kind] at hbu ⊢
  | false => exact h it (List.mem_filter.mpr ⟨hit, by simp [hbu]⟩)

end GoatSpec
