import GoatSpec.Ast
/-! # GoatSpec.Scopes — function scopes and track-scope trees (pkg/tracking/types.go) -/
namespace GoatSpec

/-- a function node: body brace lines and body statements -/
structure FuncNode where
  lb : Nat
  rb : Nat
  body : List Stmt

/-! ## every FuncLit under a node, in `ast.Inspect` pre-order (`functionNodesOfAST`) -/
mutual
def litsE : Expr → List FuncNode
  | .funcLit _ _ lb rb _ body => ⟨lb, rb, body⟩ :: litsL body
  | .call fn args => litsEs fn ++ litsEs args
  | .composite typ elts => litsEs typ ++ litsEs elts
  | .keyValue k v => litsEs k ++ litsEs v
  | .unary x => litsEs x
  | .structType fs => litsEs fs
  | .other cs => litsEs cs
def litsEs : List Expr → List FuncNode
  | [] => []
  | e :: es => litsE e ++ litsEs es
def litsS : Stmt → List FuncNode
  | .simple _ _ _ pre ent post => litsEs pre ++ litsEs ent ++ litsEs post
  | .block _ _ body => litsL body
  | .labeled _ _ inner => litsS inner
  | .ifS _ _ init _ _ cond _ _ body els => litsL init ++ litsEs cond ++ litsL body ++ litsL els
  | .forS _ _ init _ _ _ cond post _ _ body => litsL init ++ litsEs cond ++ litsL post ++ litsL body
  | .rangeS _ _ _ _ _ kvx _ _ body => litsEs kvx ++ litsL body
  | .switchS _ _ init _ _ tag _ _ cl => litsL init ++ litsEs tag ++ litsL cl
  | .typeSwitchS _ _ init _ _ asg _ _ cl => litsL init ++ litsL asg ++ litsL cl
  | .selectS _ _ _ _ cl => litsL cl
  | .caseC _ _ _ list _ body => litsEs list ++ litsL body
  | .commC _ _ _ comm _ body => litsL comm ++ litsL body
def litsL : List Stmt → List FuncNode
  | [] => []
  | s :: ss => litsS s ++ litsL ss
end

/-- `functionNodesOfAST` without the file node. Body-less FuncDecls are skipped by
    `FunctionScopesOfAST` / `functionTrackScopes` (since the fix of D-C01-1; before it they
    dereferenced the nil body). The `Option` is kept for the callers' error plumbing. -/
def funcNodes : List Decl → Option (List FuncNode)
  | [] => some []
  | .funcDecl none :: ds => funcNodes ds
  | .funcDecl (some (lb, rb, _, stmts)) :: ds =>
    (funcNodes ds).map (fun r => ⟨lb, rb, stmts⟩ :: (litsL stmts ++ r))
  | .genDecl vs :: ds => (funcNodes ds).map (fun r => litsEs vs ++ r)

/-- insertion sort by (start, end) — `BlockScopes.Sort` / `TrackScopes.Sort` -/
def insertBy {α : Type} (key : α → Nat × Nat) (x : α) : List α → List α
  | [] => [x]
  | y :: ys =>
    let (a, b) := key x
    let (c, d) := key y
    if a < c || (a == c && b ≤ d) then x :: y :: ys else y :: insertBy key x ys

def sortBy {α : Type} (key : α → Nat × Nat) (l : List α) : List α :=
  l.foldr (insertBy key) []

/-- `FunctionScopesOfAST`: the file scope and every function body, sorted -/
def functionScopes (f : File) : Option (List (Nat × Nat)) :=
  (funcNodes f.decls).map fun ns =>
    sortBy id ((f.pkgLine, f.endLine) :: ns.map (fun n => (n.lb, n.rb)))

/-- `BlockScopes.Search`: the last scope strictly containing the line; 0 when none -/
def searchScopes (scopes : List (Nat × Nat)) (line : Nat) : Nat :=
  (scopes.zipIdx.foldl (fun idx (p : (Nat × Nat) × Nat) => if p.1.1 < line && line < p.1.2 then p.2 else idx) 0)

/-! ## track-scope trees -/

inductive TScope where
  | mk (s e : Nat) (children : List TScope)
deriving Repr

def TScope.s : TScope → Nat | .mk s _ _ => s
def TScope.e : TScope → Nat | .mk _ e _ => e
def TScope.children : TScope → List TScope | .mk _ _ c => c

/-- raw child of a block before sorting: start, end, statement list of the child block -/
structure RawChild where
  s : Nat
  e : Nat
  node : List Stmt

def lastEnd : List Stmt → Nat
  | [] => 0
  | [s] => s.endLine
  | _ :: r => lastEnd r

/-- the else chain of `blockNodesOfFunction` -/
def elseChain : List Stmt → List RawChild
  | [.block l e b] => [⟨l, e, b⟩]
  | [.ifS _ _ _ _ _ _ lb rb body els] => ⟨lb, rb, body⟩ :: elseChain els
  | _ => []

/-- one block node of `PrepareChildren`'s type switch (no else chain) -/
def rawOfNode : Stmt → List RawChild
  | .ifS _ _ _ _ _ _ lb rb body _ => [⟨lb, rb, body⟩]
  | .forS _ _ _ _ _ _ _ _ lb rb body => [⟨lb, rb, body⟩]
  | .rangeS _ _ _ _ _ _ lb rb body => [⟨lb, rb, body⟩]
  | .switchS _ _ _ _ _ _ lb rb cl => [⟨lb, rb, cl⟩]
  | .typeSwitchS _ _ _ _ _ _ lb rb cl => [⟨lb, rb, cl⟩]
  | .selectS _ _ lb rb cl => [⟨lb, rb, cl⟩]
  | .caseC _ _ _ _ _ body =>
    match body with
    | [] => []
    | s0 :: _ => [⟨s0.line - 1, lastEnd body + 1, body⟩]
  | .commC _ _ _ _ _ body =>
    match body with
    | [] => []
    | s0 :: _ => [⟨s0.line - 1, lastEnd body + 1, body⟩]
  | _ => []

/-- `blockNodesOfFunction` + the type switch of `PrepareChildren` for one direct statement -/
def rawOfStmt : Stmt → List RawChild
  | .ifS _ _ _ _ _ _ lb rb body els => ⟨lb, rb, body⟩ :: elseChain els
  | .labeled _ _ inner => rawOfNode inner
  | s => rawOfNode s

inductive ScopeErr where
  | indexOutOfRange
deriving Repr, DecidableEq

/-- gap filling of `PrepareChildren` (loop-faithful: `children[k]` is read even when no
    leading gap was appended — index out of range when `fS ≥ c₀.s`). `cs` is sorted and its
    elements already carry their own children. -/
def fillGaps (fS fE : Nat) (cs : List TScope) : Except ScopeErr (List TScope) :=
  match cs with
  | [] => .ok []
  | c0 :: _ =>
    let init : List TScope := if fS < c0.s then [.mk fS c0.s []] else []
    -- acc is kept reversed; its head is `children[k]`
    let step (acc : Except ScopeErr (List TScope)) (c : TScope) : Except ScopeErr (List TScope) :=
      match acc with
      | .error e => .error e
      | .ok [] => .error .indexOutOfRange
      | .ok (last :: rest) =>
        if last.e < c.s then .ok (c :: .mk last.e c.s [] :: last :: rest)
        else .ok (c :: last :: rest)
    match cs.foldl step (.ok init.reverse) with
    | .error e => .error e
    | .ok acc =>
      let lastOrig := cs.getLast?.map (·.e) |>.getD 0
      let tail : List TScope := if fE > lastOrig then [.mk lastOrig fE []] else []
      .ok (acc.reverse ++ tail)

/-- `PrepareChildren`, recursion bounded by `fuel` (≥ nesting depth) -/
def prepare : Nat → Nat → Nat → List Stmt → Except ScopeErr (List TScope)
  | 0, _, _, _ => .ok []
  | fuel+1, fS, fE, stmts =>
    let raws := sortBy (fun (r : RawChild) => (r.s, r.e)) (stmts.flatMap rawOfStmt)
    let rec go : List RawChild → Except ScopeErr (List TScope)
      | [] => .ok []
      | r :: rs =>
        match prepare fuel r.s r.e r.node, go rs with
        | .ok cs, .ok rest => .ok (.mk r.s r.e cs :: rest)
        | .error e, _ => .error e
        | _, .error e => .error e
    match go raws with
    | .error e => .error e
    | .ok cs => fillGaps fS fE cs

/-! nesting depth (fuel for `prepare`) -/
mutual
def depthE : Expr → Nat
  | .funcLit _ _ _ _ _ body => depthL body + 1
  | .call fn args => max (depthEs fn) (depthEs args)
  | .composite typ elts => max (depthEs typ) (depthEs elts)
  | .keyValue k v => max (depthEs k) (depthEs v)
  | .unary x => depthEs x
  | .structType fs => depthEs fs
  | .other cs => depthEs cs
def depthEs : List Expr → Nat
  | [] => 0
  | e :: es => max (depthE e) (depthEs es)
def depthS : Stmt → Nat
  | .simple _ _ _ pre ent post => max (depthEs pre) (max (depthEs ent) (depthEs post))
  | .block _ _ body => depthL body + 1
  | .labeled _ _ inner => depthS inner + 1
  | .ifS _ _ init _ _ cond _ _ body els => max (max (depthL init) (depthEs cond)) (max (depthL body) (depthL els)) + 1
  | .forS _ _ init _ _ _ cond post _ _ body => max (max (depthL init) (depthEs cond)) (max (depthL post) (depthL body)) + 1
  | .rangeS _ _ _ _ _ kvx _ _ body => max (depthEs kvx) (depthL body) + 1
  | .switchS _ _ init _ _ tag _ _ cl => max (max (depthL init) (depthEs tag)) (depthL cl) + 1
  | .typeSwitchS _ _ init _ _ asg _ _ cl => max (max (depthL init) (depthL asg)) (depthL cl) + 1
  | .selectS _ _ _ _ cl => depthL cl + 1
  | .caseC _ _ _ list _ body => max (depthEs list) (depthL body) + 1
  | .commC _ _ _ comm _ body => max (depthL comm) (depthL body) + 1
def depthL : List Stmt → Nat
  | [] => 0
  | s :: ss => max (depthS s) (depthL ss)
end

/-- `TrackScopesOfAST`: one tree per function (declarations and literals), sorted -/
def trackScopes (f : File) : Option (Except ScopeErr (List TScope)) :=
  (funcNodes f.decls).map fun ns =>
    let sorted := sortBy (fun (n : FuncNode) => (n.lb, n.rb)) ns
    sorted.foldr (fun n acc =>
      match prepare (depthL n.body + 2) n.lb n.rb n.body, acc with
      | .ok cs, .ok rest => .ok (.mk n.lb n.rb cs :: rest)
      | .error e, _ => .error e
      | _, .error e => .error e) (.ok [])

/-- `TrackScopes.Search`: index of the last tree strictly containing the line -/
def searchTrees (ts : List TScope) (line : Nat) : Option TScope :=
  ts.foldl (fun r t => if t.s < line && line < t.e then some t else r) none

/-! `TrackScope.Search`: first child strictly containing the line, recursively; else itself -/
mutual
def TScope.search (line : Nat) : TScope → Nat × Nat
  | .mk s e cs => (searchChildren line cs).getD (s, e)
def searchChildren (line : Nat) : List TScope → Option (Nat × Nat)
  | [] => none
  | c :: cs =>
    match c with
    | .mk s e ccs =>
      if s < line && line < e then some ((searchChildren line ccs).getD (s, e))
      else searchChildren line cs
end

end GoatSpec
