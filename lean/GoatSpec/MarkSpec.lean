import GoatSpec.Mark
/-! # GoatSpec.MarkSpec — what C01 / C02 / C03 / C09 demand of a set of insert positions,
    as decidable predicates over the abstract file. They are evaluated on the
    *implementation's* positions (`judge:marks`) and are the conclusions of the theorems in
    `Properties/C09.lean`, `C03.lean`, `C01.lean`. -/
namespace GoatSpec

/-- a statement list in block position: `lo` = line of the opening brace / colon, `hi` = line of
    the closing brace / next clause, `lines` = first lines of its statements with a flag
    "covered executable statement" -/
structure Blk where
  lo : Nat
  hi : Nat
  stmts : List (Nat × Bool)
  /-- header lines of the construct this block is a first-level branch of ([] for function bodies) -/
  header : List Nat
deriving Repr

def rngLines : ORng → List Nat
  | none => []
  | some (s, e) => (List.range (e + 1 - s)).map (· + s)

/-- is the statement one of the kinds C03 enumerates -/
def coveredStmt : Stmt → Bool
  | .simple .mark _ _ _ _ _ => true
  | .simple .noMark _ _ _ _ _ => true
  | .simple (.decl n) _ _ _ _ _ => n > 0
  | .block .. => true
  | .labeled _ _ inner => coveredStmt inner
  | _ => false

/-- boundary lines contributed by one statement of a list: its first line (with the flag
    "covered executable statement"); for a labelled statement the label line and the entries of
    the inner statement (the tracker marks the inner statement's line) -/
def stmtEntries : Stmt → List (Nat × Bool)
  | .labeled l _ inner => (l, false) :: stmtEntries inner
  | s => [(s.line, coveredStmt s)]

def entriesOf (body : List Stmt) : List (Nat × Bool) := body.flatMap stmtEntries

/-- the closing line of each clause: the next clause's line, or the switch's closing brace -/
def clauseHis (rb : Nat) : List Stmt → List Nat
  | [] => []
  | [_] => [rb]
  | _ :: b :: r => b.line :: clauseHis rb (b :: r)

mutual
def blksE : Expr → List Blk
  | .funcLit _ _ lb rb _ body => ⟨lb, rb, entriesOf body, []⟩ :: blksL body
  | .call fn args => blksEs fn ++ blksEs args
  | .composite typ elts => blksEs typ ++ blksEs elts
  | .keyValue k v => blksEs k ++ blksEs v
  | .unary x => blksEs x
  | .structType fs => blksEs fs
  | .other cs => blksEs cs
def blksEs : List Expr → List Blk
  | [] => []
  | e :: es => blksE e ++ blksEs es
def blksS : Stmt → List Blk
  | .simple _ _ _ pre ent post => blksEs pre ++ blksEs ent ++ blksEs post
  | .block l e body => ⟨l, e, entriesOf body, []⟩ :: blksL body
  | .labeled _ _ inner => blksS inner
  | .ifS l _ init initR condR cond lb rb body els =>
    let hdr := l :: (rngLines initR ++ rngLines condR)
    blksL init ++ blksEs cond ++ (⟨lb, rb, entriesOf body, hdr⟩ :: blksL body) ++
    (match els with
     | [.block bl be b] => ⟨bl, be, entriesOf b, hdr⟩ :: blksL b
     | other => blksL other)
  | .forS l _ init initR condR postR cond post lb rb body =>
    blksL init ++ blksEs cond ++ blksL post ++
    (⟨lb, rb, entriesOf body, l :: (rngLines initR ++ rngLines condR ++ rngLines postR)⟩ :: blksL body)
  | .rangeS l _ keyR valR xR kvx lb rb body =>
    blksEs kvx ++ (⟨lb, rb, entriesOf body, l :: (rngLines keyR ++ rngLines valR ++ rngLines xR)⟩ :: blksL body)
  | .switchS l _ init initR tagR tag _ rb cl =>
    blksL init ++ blksEs tag ++ blksClauses (l :: (rngLines initR ++ rngLines tagR)) cl (clauseHis rb cl)
  | .typeSwitchS l _ init initR asgR asg _ rb cl =>
    blksL init ++ blksL asg ++ blksClauses (l :: (rngLines initR ++ rngLines asgR)) cl (clauseHis rb cl)
  | .selectS _ _ _ rb cl => blksClauses [] cl (clauseHis rb cl)
  | .caseC _ _ _ list _ body => blksEs list ++ blksL body     -- (reached only outside a switch)
  | .commC _ _ _ comm _ body => blksL comm ++ blksL body
/-- clause bodies as blocks; their header = the enclosing switch header plus the clause's own -/
def blksClauses (swHdr : List Nat) : List Stmt → List Nat → List Blk
  | [], _ => []
  | c :: cs, his =>
    let hi := his.headD 0
    (match c with
     | .caseC l _ listR list colon body =>
       blksEs list ++ (⟨colon, hi, entriesOf body, swHdr ++ l :: listR.flatMap (fun r => rngLines (some r))⟩ :: blksL body)
     | .commC l _ commR comm colon body =>
       blksL comm ++ (⟨colon, hi, entriesOf body, l :: rngLines commR⟩ :: blksL body)
     | other => blksS other) ++ blksClauses swHdr cs his.tail
def blksL : List Stmt → List Blk
  | [] => []
  | s :: ss => blksS s ++ blksL ss
end

def declBlks : Decl → List Blk
  | .funcDecl none => []
  | .funcDecl (some (lb, rb, _, stmts)) => ⟨lb, rb, entriesOf stmts, []⟩ :: blksL stmts
  | .genDecl vs => blksEs vs

def fileBlks (f : File) : List Blk := f.decls.flatMap declBlks

/-- function bodies (declarations and literals): brace lines and first statement position -/
structure Fn where
  lb : Nat
  rb : Nat
  first : Option (Nat × Nat)
deriving Repr

mutual
def fnsE : Expr → List Fn
  | .funcLit _ _ lb rb first body => ⟨lb, rb, first⟩ :: fnsL body
  | .call fn args => fnsEs fn ++ fnsEs args
  | .composite typ elts => fnsEs typ ++ fnsEs elts
  | .keyValue k v => fnsEs k ++ fnsEs v
  | .unary x => fnsEs x
  | .structType fs => fnsEs fs
  | .other cs => fnsEs cs
def fnsEs : List Expr → List Fn
  | [] => []
  | e :: es => fnsE e ++ fnsEs es
def fnsS : Stmt → List Fn
  | .simple _ _ _ pre ent post => fnsEs pre ++ fnsEs ent ++ fnsEs post
  | .block _ _ body => fnsL body
  | .labeled _ _ inner => fnsS inner
  | .ifS _ _ init _ _ cond _ _ body els => fnsL init ++ fnsEs cond ++ fnsL body ++ fnsL els
  | .forS _ _ init _ _ _ cond post _ _ body => fnsL init ++ fnsEs cond ++ fnsL post ++ fnsL body
  | .rangeS _ _ _ _ _ kvx _ _ body => fnsEs kvx ++ fnsL body
  | .switchS _ _ init _ _ tag _ _ cl => fnsL init ++ fnsEs tag ++ fnsL cl
  | .typeSwitchS _ _ init _ _ asg _ _ cl => fnsL init ++ fnsL asg ++ fnsL cl
  | .selectS _ _ _ _ cl => fnsL cl
  | .caseC _ _ _ list _ body => fnsEs list ++ fnsL body
  | .commC _ _ _ comm _ body => fnsL comm ++ fnsL body
def fnsL : List Stmt → List Fn
  | [] => []
  | s :: ss => fnsS s ++ fnsL ss
end

def fileFns (f : File) : List Fn :=
  f.decls.flatMap fun d => match d with
    | .funcDecl none => []
    | .funcDecl (some (lb, rb, first, stmts)) => ⟨lb, rb, first⟩ :: fnsL stmts
    | .genDecl vs => fnsEs vs

/-- innermost (smallest) interval of `xs` with `lo < line ≤ hi` -/
def innermost {α : Type} (lo hi : α → Nat) (xs : List α) (line : Nat) : Option α :=
  xs.foldl (fun best x =>
    if lo x < line && line ≤ hi x then
      match best with
      | none => some x
      | some b => if hi x - lo x ≤ hi b - lo b then some x else some b
    else best) none

def codeAt (f : File) (l : Nat) : Nat := f.lineCodes.getD (l - 1) 0

/-- first boundary of a block: its first statement line, or its closing line when empty -/
def Blk.firstBoundary (b : Blk) : Nat :=
  match b.stmts with
  | [] => b.hi
  | (l, _) :: _ => l

/-- per-file data the judges need, computed once when the file is loaded -/
structure FileCtx where
  f : File
  blks : List Blk                 -- multi-line blocks
  fns : List Fn
  /-- for each block (same order as `blks`) the brace lines of its innermost function -/
  blkFn : List (Nat × Nat)
  fnFirsts : List ((Nat × Nat) × Nat)   -- function (lb, rb) ↦ first boundary of its body

def fnOfBlk (fns : List Fn) (b : Blk) : Nat × Nat :=
  let best := fns.foldl (fun (best : Option Fn) fn =>
    if fn.lb ≤ b.lo && b.hi ≤ fn.rb then
      match best with
      | none => some fn
      | some x => if fn.rb - fn.lb ≤ x.rb - x.lb then some fn else some x
    else best) none
  match best with | some fn => (fn.lb, fn.rb) | none => (0, 0)

def mkCtx (f : File) : FileCtx :=
  let blks := (fileBlks f).filter (fun b => b.lo < b.hi)
  let fns := fileFns f
  { f := f, blks := blks, fns := fns, blkFn := blks.map (fnOfBlk fns),
    fnFirsts := (fns.filter (fun fn => fn.lb < fn.rb)).filterMap (fun fn =>
      (blks.find? (fun b => b.lo == fn.lb && b.hi == fn.rb)).map (fun b => ((fn.lb, fn.rb), b.firstBoundary))) }

/-- innermost block (with its function) holding line `m`: `lo < m ≤ hi` -/
def blkOfLine (c : FileCtx) (m : Nat) : Option (Blk × (Nat × Nat)) :=
  (c.blks.zip c.blkFn).foldl (fun best (p : Blk × (Nat × Nat)) =>
    if p.1.lo < m && m ≤ p.1.hi then
      match best with
      | none => some p
      | some b => if p.1.hi - p.1.lo ≤ b.1.hi - b.1.lo then some p else some b
    else best) none

structure Judged where
  multi : List Nat
  singles : List (Nat × Nat)    -- before doInsert moved them (unshifted)
  count : Nat
  written : Nat

/-- C01/C02: every insert position is a statement boundary of a multi-line block of a function
    body, outside any comment; single positions are first statements of single-line bodies. -/
def legalReasons (c : FileCtx) (j : Judged) : List String :=
  let f := c.f
  let blks := c.blks
  let fns := c.fns
  let boundsOf (m : Nat) : Bool := blks.any (fun b => b.lo < m && m ≤ b.hi && (m == b.hi || b.stmts.any (fun s => s.1 == m)))
  let spots : List (Nat × Nat) := fns.filterMap (fun fn => if fn.lb == fn.rb then fn.first else none)
  (if j.multi.all boundsOf then [] else ["C01:position-not-a-statement-boundary", "C02:position-not-a-statement-boundary"]) ++
  (if j.multi.all (fun m => !insideCommentCode (codeAt f m)) then [] else ["C01:call-inside-comment", "C02:call-inside-comment", "C03:call-inside-comment"]) ++
  (if j.multi.eraseDups.length == j.multi.length then [] else ["C01:duplicate-position", "C09:duplicate-position"]) ++
  (if j.singles.all (fun p => spots.contains p) then [] else ["C01:single-position-illegal", "C02:single-position-illegal"]) ++
  (if j.written == j.count then [] else ["C01:count-differs-from-written-blocks"])

/-- C09 on one granularity's positions (`singles` unshifted) -/
def c09Reasons (c : FileCtx) (gran : Gran) (ch : Nat → Bool) (multi : List Nat) (singles : List (Nat × Nat)) : List String :=
  let f := c.f
  let fns := c.fns
  let blks := c.blks
  let inChangedFn (m : Nat) : Bool :=
    match innermost Fn.lb Fn.rb fns m with
    | none => false
    | some fn => (List.range (fn.rb + 1 - fn.lb)).any (fun i => ch (fn.lb + i))
  let isStart (m : Nat) : Bool := blks.any (fun b => b.lo < m && m ≤ b.hi && b.stmts.any (fun s => s.1 == m))
  let isFirst (m : Nat) : Bool := blks.any (fun b => b.firstBoundary == m)
  let fnFirsts : List Nat := c.fnFirsts.map (·.2)
  (if multi.all inChangedFn && singles.all (fun p => ch p.1) then [] else ["C09:point-in-function-without-changed-line"]) ++
  (if multi.all (fun m => commentLikeCode (codeAt f m) == false) then [] else ["C09:adjacent-or-comment-position"]) ++
  (match gran with
   | .line => if multi.all (fun m => isFirst m || (isStart m && ch m)) then [] else ["C09:line-shape"]
   | .func => if multi.all (fun m => fnFirsts.contains m) then [] else ["C09:func-shape"]
   | _ => [])

/-- C03 on one granularity's positions. `Guards m s` (the call inserted before line `m` executes
    before the statement at line `sl` of block `bs`): same innermost function, `m ≤ sl`, and the
    innermost block holding `m` encloses `bs`. Returns one reason per unguarded line and rule. -/
def c03Reasons (c : FileCtx) (gran : Gran) (ch : Nat → Bool) (multi : List Nat) (singles : List (Nat × Nat)) : List String :=
  let markInfo : List (Nat × Blk × (Nat × Nat)) := multi.filterMap (fun m => (blkOfLine c m).map (fun p => (m, p.1, p.2)))
  let fnFirst (fn : Nat × Nat) : Option Nat := (c.fnFirsts.find? (fun p => p.1 == fn)).map (·.2)
  let guardedBy (bs : Blk) (fn : Nat × Nat) (sl : Nat) : Bool :=
    match gran with
    | .line => multi.contains sl
    | .func => match fnFirst fn with | some m => multi.contains m | none => false
    | _ => markInfo.any (fun (m, bm, fm) => m ≤ sl && bm.lo ≤ bs.lo && bs.hi ≤ bm.hi && fm == fn)
  let per := c.blks.zip c.blkFn
  let unguarded := per.flatMap (fun (b, fn) =>
    (b.stmts.filter (fun s => s.2 && ch s.1 && b.lo < s.1 && !guardedBy b fn s.1)).map (·.1))
  let singleBad := (c.fns.filter (fun fn => fn.lb == fn.rb)).filterMap (fun fn =>
    match fn.first with
    | some p => if ch p.1 && !singles.contains p then some p.1 else none
    | none => none)
  let hdrBad := per.filterMap (fun (b, fn) =>
    match b.stmts with
    | [] => none
    | (sl, _) :: _ =>
      if b.header.any ch && b.lo < sl then
        let ok := match gran with
          | .func => (match fnFirst fn with | some m => multi.contains m | none => false)
          | _ => markInfo.any (fun (m, bm, fm) => m ≤ sl && bm.lo ≤ b.lo && b.hi ≤ bm.hi && fm == fn)
        if ok then none else some sl
      else none)
  unguarded.map (fun l => s!"C03:unguarded-statement@{l}") ++
  singleBad.map (fun l => s!"C03:single-line-body@{l}") ++
  hdrBad.map (fun l => s!"C03:header-branch@{l}")

end GoatSpec
