import GoatSpec.Basic
import GoatSpec.Extracted
/-! # GoatSpec.Config — `goat init` / `config.LoadConfig` (core Lean only)

* `Cfg`        the exported fields of `config.Config` (Go's nil slice and the empty slice are
               both `[]`: neither `goat init` nor the emitted YAML can produce an empty non-nil one)
* `validate`   `Config.Validate`: defaulting and rejection, in the order of the Go code
* `preprocess` the flag handling of `cmd/goat/init.go` (cobra defaults, comma splitting, TrimSpace)
* `renderSegs` interpreter of the segment table `Extracted.configTemplate` (CONFIG_TEMPLATE as
               parsed by text/template/parse), with html/template's text-context escaper when
               `Extracted.templateHtmlEscape` says the real `InitWithConfig` escapes
* `load`       line-level loader for exactly the YAML shapes the template emits, then `validate`

Everything is structurally recursive so that closed instances reduce in the kernel. -/
namespace GoatSpec.Config
open GoatSpec.Extracted (TItem TSeg)

abbrev Str := List Char

/-! ## records -/

structure Cfg where
  appName : Str
  appVersion : Str
  oldBranch : Str
  newBranch : Str
  ignores : List Str
  pkgName : Str
  pkgAlias : Str
  pkgPath : Str
  granularity : Str
  diffPrecision : Int
  threads : Int
  race : Bool
  mainEntries : List Str
  printerModes : List Str
  tabwidth : Int
  indent : Int
  dataType : Str
  verbose : Bool
  skipNested : Bool
  deriving DecidableEq, Repr

/-- what `Validate` reads from its environment -/
structure Env where
  /-- `runtime.NumCPU()` -/
  numCPU : Int
  /-- `filepath.Base(os.Getwd())` -/
  cwdBase : Str
  /-- `getShortCommitHash(ref)`: 7 hex digits, or failure -/
  shortHash : Str → Option Str

inductive Rej where
  | fileExists | granularity | precision | hash | printerMode | dataType | parse | template
  deriving DecidableEq, Repr

def Rej.name : Rej → String
  | .fileExists => "exists" | .granularity => "granularity" | .precision => "precision" | .hash => "hash"
  | .printerMode => "printer-mode" | .dataType => "data-type" | .parse => "parse" | .template => "template"

/-! ## small string functions -/

/-- `strings.Split(s, sep)` for a one-character separator (never empty) -/
def splitOnChar (sep : Char) : Str → List Str
  | [] => [[]]
  | c :: cs =>
    if c = sep then [] :: splitOnChar sep cs
    else match splitOnChar sep cs with
      | l :: ls => (c :: l) :: ls
      | [] => [[c]]

def joinWith (sep : Char) : List Str → Str
  | [] => []
  | [a] => a
  | a :: b :: r => a ++ sep :: joinWith sep (b :: r)

/-- drop trailing characters satisfying `p` -/
def dropRight (p : Char → Bool) : Str → Str
  | [] => []
  | c :: cs => match dropRight p cs with
    | [] => if p c then [] else [c]
    | r => c :: r

/-- `strings.TrimSpace` -/
def trimGo (s : Str) : Str := dropRight isGoSpace (s.dropWhile isGoSpace)

def orDefault (s d : Str) : Str := if s = [] then d else s

/-- `filepath.Clean` (Unix): component stack, `..` handling for rooted and relative paths -/
def cleanComps (rooted : Bool) : List Str → List Str → List Str
  | [], st => st.reverse
  | c :: cs, st =>
    if c = [] ∨ c = ['.'] then cleanComps rooted cs st
    else if c = ['.', '.'] then
      match st with
      | top :: st' => if top = ['.', '.'] then cleanComps rooted cs (c :: st) else cleanComps rooted cs st'
      | [] => if rooted then cleanComps rooted cs [] else cleanComps rooted cs [c]
    else cleanComps rooted cs (c :: st)

def cleanPath (p : Str) : Str :=
  match p with
  | [] => ['.']
  | c0 :: _ =>
    let rooted := c0 = '/'
    let body := joinWith '/' (cleanComps rooted (splitOnChar '/' p) [])
    if rooted then '/' :: body else if body = [] then ['.'] else body

/-- `Config.GoatGeneratedFile()` = `filepath.Join(GoatPackagePath, "goat_generated.go")` -/
def genFile (pkgPath : Str) : Str :=
  if pkgPath = [] then cleanPath Extracted.generatedFileName.toList
  else cleanPath (pkgPath ++ '/' :: Extracted.generatedFileName.toList)

/-! ## numbers and booleans as text -/

def digitChar (d : Nat) : Char := Char.ofNat (48 + d)

def showNatAux : Nat → Nat → Str → Str
  | 0, _, acc => acc
  | f+1, n, acc => if n < 10 then digitChar n :: acc else showNatAux f (n / 10) (digitChar (n % 10) :: acc)

def showNat (n : Nat) : Str := showNatAux (n+1) n []

def showInt : Int → Str
  | .ofNat n => showNat n
  | .negSucc n => '-' :: showNat (n+1)

def showBool (b : Bool) : Str := if b then ['t','r','u','e'] else ['f','a','l','s','e']

def isDigit (c : Char) : Bool := decide (48 ≤ c.toNat) && decide (c.toNat ≤ 57)

def parseNatAux : Str → Nat → Option Nat
  | [], a => some a
  | c :: cs, a => if isDigit c then parseNatAux cs (a * 10 + (c.toNat - 48)) else none

/-- canonical decimal integers only (`0`, `17`, `-3`); anything else is outside the subset -/
def parseInt (s : Str) : Option Int :=
  match s with
  | [] => none
  | ['0'] => some 0
  | '0' :: _ => none
  | '-' :: r => match r with
    | [] => none
    | '0' :: _ => none
    | _ => (parseNatAux r 0).map (fun n => -(Int.ofNat n))
  | _ => (parseNatAux s 0).map Int.ofNat

def parseBool (s : Str) : Option Bool :=
  if s = ['t','r','u','e'] then some true else if s = ['f','a','l','s','e'] then some false else none

/-! ## Validate -/

def granularityOK (s : Str) : Bool := Extracted.granularityParse.any (fun p => p.1.toList = s)
def dataTypeOK (s : Str) : Bool := Extracted.dataTypeNames.any (fun p => p.toList = s)
def modeOK (s : Str) : Bool := Extracted.validPrinterModes.any (fun p => p.toList = s)

/-- the nine default ignores (`Extracted.defaultIgnores` is taken after `Validate`, i.e. with
    the generated file of the default package path appended) -/
def baseIgnores : List Str :=
  (Extracted.defaultIgnores.map String.toList).filter (fun s => s ≠ genFile Extracted.defaultPackagePath.toList)

def validate (env : Env) (c : Cfg) : Except Rej Cfg :=
  let gran := orDefault c.granularity Extracted.defaultGranularity.toList
  if granularityOK gran = false then .error .granularity else
  if c.diffPrecision < 1 ∨ c.diffPrecision > 3 then .error .precision else
  let newB := orDefault c.newBranch Extracted.defaultNewBranch.toList
  match (if c.appVersion = [] then env.shortHash newB else some c.appVersion) with
  | none => .error .hash
  | some ver =>
    let modes := if c.printerModes = [] then Extracted.defaultPrinterModes.map String.toList else c.printerModes
    if modes.all modeOK = false then .error .printerMode else
    let dt := orDefault c.dataType Extracted.defaultDataType.toList
    if dataTypeOK dt = false then .error .dataType else
    let path := orDefault c.pkgPath Extracted.defaultPackagePath.toList
    let ign := if c.ignores = [] then baseIgnores else c.ignores
    .ok { appName := orDefault c.appName env.cwdBase
          appVersion := ver
          oldBranch := orDefault c.oldBranch Extracted.defaultOldBranch.toList
          newBranch := newB
          ignores := if ign.contains (genFile path) then ign else ign ++ [genFile path]
          pkgName := orDefault c.pkgName Extracted.defaultPackageName.toList
          pkgAlias := orDefault c.pkgAlias Extracted.defaultPackageAlias.toList
          pkgPath := path
          granularity := gran
          diffPrecision := c.diffPrecision
          threads := if c.threads ≤ 0 then env.numCPU else c.threads
          race := c.race
          mainEntries := if c.mainEntries = [] then Extracted.defaultMainEntries.map String.toList else c.mainEntries
          printerModes := modes
          tabwidth := if c.tabwidth < 1 then Int.ofNat Extracted.defaultTabwidth else c.tabwidth
          indent := if c.indent < 0 then Int.ofNat Extracted.defaultIndent else c.indent
          dataType := dt
          verbose := c.verbose
          skipNested := c.skipNested }

/-! ## `goat init` flags (cmd/goat/init.go) -/

/-- `none` = flag not given on the command line (cobra default applies) -/
structure Flags where
  old : Option Str
  new : Option Str
  appName : Option Str
  appVersion : Option Str
  granularity : Option Str
  diffPrecision : Option Int
  threads : Option Int
  race : Option Bool
  pkgName : Option Str
  pkgAlias : Option Str
  pkgPath : Option Str
  ignores : Option Str
  mainEntries : Option Str
  printerMode : Option Str
  tabwidth : Option Int
  indent : Option Int
  dataType : Option Str
  skipNested : Option Bool
  force : Bool
  deriving Repr

def Flags.none : Flags :=
  { old := .none, new := .none, appName := .none, appVersion := .none, granularity := .none, diffPrecision := .none,
    threads := .none, race := .none, pkgName := .none, pkgAlias := .none, pkgPath := .none, ignores := .none,
    mainEntries := .none, printerMode := .none, tabwidth := .none, indent := .none, dataType := .none,
    skipNested := .none, force := false }

/-- flags → the `config.Config` literal built by `initCmd` (cobra defaults of lines 157-175,
    comma splitting of lines 93-115) -/
def preprocess (f : Flags) : Cfg :=
  let ign := trimGo (f.ignores.getD [])
  let me := f.mainEntries.getD []
  let pm := f.printerMode.getD "useSpaces,tabIndent".toList
  { appName := f.appName.getD []
    appVersion := f.appVersion.getD []
    oldBranch := f.old.getD "main".toList
    newBranch := f.new.getD "HEAD".toList
    ignores := if ign = [] then [] else splitOnChar ',' ign
    pkgName := f.pkgName.getD "goat".toList
    pkgAlias := f.pkgAlias.getD "goat".toList
    pkgPath := f.pkgPath.getD "goat".toList
    granularity := f.granularity.getD "patch".toList
    diffPrecision := f.diffPrecision.getD 1
    threads := f.threads.getD 1
    race := f.race.getD false
    mainEntries := if me = [] then [['*']] else splitOnChar ',' me
    printerModes := if pm = [] then [ "useSpaces".toList, "tabIndent".toList ] else splitOnChar ',' pm
    tabwidth := f.tabwidth.getD 8
    indent := f.indent.getD 0
    dataType := f.dataType.getD "bool".toList
    verbose := false
    skipNested := f.skipNested.getD true }

/-! ## rendering: interpreter of the template segment table -/

/-- html/template's escaper for the HTML text context (`htmlReplacementTable`) -/
def htmlEscChar (c : Char) : Str :=
  if c = '"' then "&#34;".toList else if c = '&' then "&amp;".toList else if c = '\'' then "&#39;".toList
  else if c = '+' then "&#43;".toList else if c = '<' then "&lt;".toList else if c = '>' then "&gt;".toList
  else if c = Char.ofNat 0 then [Char.ofNat 0xFFFD] else [c]

def esc (html : Bool) (s : Str) : Str := if html then s.flatMap htmlEscChar else s

/-- `strconv.Quote` (`%q`) on printable text; of the non-printable characters only newline,
    tab and carriage return are modelled -/
def quoteChar (c : Char) : Str :=
  if c = '"' then ['\\', '"'] else if c = '\\' then ['\\', '\\'] else if c = '\n' then ['\\', 'n']
  else if c = '\t' then ['\\', 't'] else if c = '\r' then ['\\', 'r'] else [c]

def quoteBody (s : Str) : Str := s.flatMap quoteChar

def quoteGo (s : Str) : Str := '"' :: (quoteBody s ++ ['"'])

inductive FVal where
  | str (s : Str) | int (n : Int) | bool (b : Bool) | list (l : List Str)

/-- Go field name → value -/
def Cfg.field (c : Cfg) (name : String) : Option FVal :=
  if name = "AppName" then some (.str c.appName)
  else if name = "AppVersion" then some (.str c.appVersion)
  else if name = "OldBranch" then some (.str c.oldBranch)
  else if name = "NewBranch" then some (.str c.newBranch)
  else if name = "Ignores" then some (.list c.ignores)
  else if name = "GoatPackageName" then some (.str c.pkgName)
  else if name = "GoatPackageAlias" then some (.str c.pkgAlias)
  else if name = "GoatPackagePath" then some (.str c.pkgPath)
  else if name = "Granularity" then some (.str c.granularity)
  else if name = "DiffPrecision" then some (.int c.diffPrecision)
  else if name = "Threads" then some (.int c.threads)
  else if name = "Race" then some (.bool c.race)
  else if name = "MainEntries" then some (.list c.mainEntries)
  else if name = "PrinterConfigMode" then some (.list c.printerModes)
  else if name = "PrinterConfigTabwidth" then some (.int c.tabwidth)
  else if name = "PrinterConfigIndent" then some (.int c.indent)
  else if name = "DataType" then some (.str c.dataType)
  else if name = "Verbose" then some (.bool c.verbose)
  else if name = "SkipNestedModules" then some (.bool c.skipNested)
  else none

/-- text of `{{.Name}}` -/
def fieldText (html : Bool) (c : Cfg) (name : String) : Str :=
  match c.field name with
  | some (.str s) => esc html s
  | some (.int n) => showInt n
  | some (.bool b) => showBool b
  | _ => []

def fieldList (c : Cfg) (name : String) : List Str :=
  match c.field name with
  | some (.list l) => l
  | _ => []

def renderBody (html : Bool) (v : Str) : List TItem → Str → Str
  | [], rest => rest
  | .lit s :: b, rest => s ++ renderBody html v b rest
  | .dot :: b, rest => esc html v ++ renderBody html v b rest
  | .dotq :: b, rest => esc html (quoteGo v) ++ renderBody html v b rest
  | .unsupported _ :: b, rest => renderBody html v b rest

def renderRange (html : Bool) (body : List TItem) : List Str → Str → Str
  | [], rest => rest
  | v :: vs, rest => renderBody html v body (renderRange html body vs rest)

def renderSegs (html : Bool) (c : Cfg) : List TSeg → Str
  | [] => []
  | .lit s :: t => s ++ renderSegs html c t
  | .field n :: t => fieldText html c n ++ renderSegs html c t
  | .range n body :: t => renderRange html body (fieldList c n) (renderSegs html c t)
  | .unsupported _ :: t => renderSegs html c t

def itemOK : TItem → Bool
  | .unsupported _ => false
  | _ => true

/-- every field reference resolves to a value of the right kind and nothing is unsupported
    (otherwise the real template fails at execution time) -/
def segOK (c : Cfg) : TSeg → Bool
  | .lit _ => true
  | .field n => match c.field n with
    | some (.list _) => false
    | some _ => true
    | none => false
  | .range n body => (match c.field n with | some (.list _) => true | _ => false) && body.all itemOK
  | .unsupported _ => false

/-- the bytes `InitWithConfig` writes for an (already validated) configuration -/
def render (c : Cfg) : Except Rej Str :=
  if Extracted.configTemplate.all (segOK c) then
    .ok (renderSegs Extracted.templateHtmlEscape c Extracted.configTemplate)
  else .error .template

/-- `goat init` as a plan: reject (nothing is written) or the content of goat.yaml -/
def initPlan (env : Env) (fileExists : Bool) (f : Flags) : Except Rej Str :=
  if fileExists && !f.force then .error .fileExists
  else match validate env (preprocess f) with
    | .error r => .error r
    | .ok c => render c

/-! ## loading: the YAML subset the template emits -/

def splitNL (s : Str) : List Str := splitOnChar '\n' s

inductive LK where
  | skip
  | item (raw : Str)
  | key (k : Str) (raw : Str)
  | bad

/-- `key:` or `key: rest` with an alphanumeric key at column 0 -/
def splitKey : Str → Option (Str × Str)
  | [] => none
  | c :: cs =>
    if c = ':' then
      match cs with
      | [] => some ([], [])
      | ' ' :: r => some ([], r)
      | _ => none
    else if c.isAlphanum then
      match splitKey cs with
      | some (k, r) => some (c :: k, r)
      | none => none
    else none

def isSp (c : Char) : Bool := c = ' '

def classify (l : Str) : LK :=
  if l.all isSp then .skip
  else match l with
    | '#' :: _ => .skip
    | [' ', ' ', '-'] => .item []
    | ' ' :: ' ' :: '-' :: ' ' :: r => .item r
    | _ => match splitKey l with
      | some ([], _) => .bad
      | some (k, r) => .key k r
      | none => .bad

/-- scalar value: null, a string, or outside the subset -/
inductive SV where
  | null | str (s : Str) | bad
  deriving DecidableEq, Repr

/-- the inside of a double-quoted scalar up to the closing quote, which must end the line -/
def unquote : Str → Option Str
  | [] => none
  | c :: cs =>
    if c = '"' then (if cs = [] then some [] else none)
    else if c = '\\' then
      match cs with
      | d :: r =>
        (if d = '"' then some '"' else if d = '\\' then some '\\' else if d = 'n' then some '\n'
         else if d = 't' then some '\t' else if d = 'r' then some '\r' else none).bind
          (fun x => (unquote r).map (x :: ·))
      | [] => none
    else (unquote cs).map (c :: ·)

/-- characters that cannot start a plain scalar (YAML indicators) -/
def plainFirstBad (c : Char) : Bool :=
  ",[]{}#&*!|>'\"%@` \t".toList.contains c

/-- `-` `?` `:` start a plain scalar only when a non-space character follows -/
def plainFirstBad2 (c : Char) (cs : Str) : Bool :=
  (c = '-' || c = '?' || c = ':') && (match cs with | [] => true | d :: _ => d = ' ' || d = '\t')

/-- ` #` (comment) or `: ` / trailing `:` (mapping) inside a plain scalar, or a tab -/
def plainBodyBad : Str → Bool
  | [] => false
  | [c] => c = ':' || c = '\t'
  | a :: b :: r =>
    (a = ' ' && b = '#') || (a = ':' && b = ' ') || a = '\t' || plainBodyBad (b :: r)

def nullWords : List Str := ["null".toList, "Null".toList, "NULL".toList, ['~']]

def parseScalar (raw : Str) : SV :=
  match dropRight isSp (raw.dropWhile isSp) with
  | [] => .null
  | c :: cs =>
    if c = '"' then (match unquote cs with | some s => .str s | none => .bad)
    else if plainFirstBad c || plainFirstBad2 c cs then .bad
    else if plainBodyBad (c :: cs) then .bad
    else if nullWords.contains (c :: cs) then .null
    else .str (c :: cs)

inductive RV where
  | scalar (v : SV)
  | list (items : List SV)

abbrev Raw := List (Str × RV)

def flush : Option (Str × List SV) → Raw
  | none => []
  | some (k, items) => [(k, .list items)]

/-- the mapping as an association list in file order; `cur` = the key whose block sequence is open -/
def parseLines : Option (Str × List SV) → List Str → Option Raw
  | cur, [] => some (flush cur)
  | cur, l :: ls =>
    match classify l with
    | .skip => parseLines cur ls
    | .bad => none
    | .item r =>
      match cur with
      | none => none
      | some (k, its) => parseLines (some (k, its ++ [parseScalar r])) ls
    | .key k r =>
      if r.all isSp then (parseLines (some (k, [])) ls).map (flush cur ++ ·)
      else (parseLines none ls).map (fun t => flush cur ++ (k, .scalar (parseScalar r)) :: t)

def lookup (raw : Raw) (k : String) : Option RV :=
  match raw.find? (fun p => p.1 = k.toList) with
  | some p => some p.2
  | none => none

def getStr (raw : Raw) (k : String) : Option Str :=
  match lookup raw k with
  | none => some []
  | some (.list []) => some []
  | some (.scalar .null) => some []
  | some (.scalar (.str s)) => some s
  | _ => none

def getInt (raw : Raw) (k : String) : Option Int :=
  match lookup raw k with
  | none => some 0
  | some (.list []) => some 0
  | some (.scalar .null) => some 0
  | some (.scalar (.str s)) => parseInt s
  | _ => none

def getBool (raw : Raw) (k : String) : Option Bool :=
  match lookup raw k with
  | none => some false
  | some (.list []) => some false
  | some (.scalar .null) => some false
  | some (.scalar (.str s)) => parseBool s
  | _ => none

/-- yaml.v3 drops null items when it decodes a sequence into `[]string` -/
def itemsStr : List SV → Option (List Str)
  | [] => some []
  | .null :: r => itemsStr r
  | .str s :: r => (itemsStr r).map (s :: ·)
  | .bad :: _ => none

def getList (raw : Raw) (k : String) : Option (List Str) :=
  match lookup raw k with
  | none => some []
  | some (.scalar .null) => some []
  | some (.list items) => itemsStr items
  | _ => none

/-- yaml key of every field, as hard-wired in `fromRaw`; checked against the struct tags -/
def modelKeys : List (String × String) :=
  [("AppName", "appName"), ("AppVersion", "appVersion"), ("OldBranch", "oldBranch"), ("NewBranch", "newBranch"),
   ("Ignores", "ignores"), ("GoatPackageName", "goatPackageName"), ("GoatPackageAlias", "goatPackageAlias"),
   ("GoatPackagePath", "goatPackagePath"), ("Granularity", "granularity"), ("DiffPrecision", "diffPrecision"),
   ("Threads", "threads"), ("Race", "race"), ("MainEntries", "mainEntries"), ("PrinterConfigMode", "printerConfigMode"),
   ("PrinterConfigTabwidth", "printerConfigTabwidth"), ("PrinterConfigIndent", "printerConfigIndent"),
   ("DataType", "dataType"), ("Verbose", "verbose"), ("SkipNestedModules", "skipNestedModules")]

/-- `yaml.Unmarshal` into `Config` on the subset -/
def fromRaw (raw : Raw) : Option Cfg :=
  match getStr raw "appName", getStr raw "appVersion", getStr raw "oldBranch", getStr raw "newBranch",
        getList raw "ignores", getStr raw "goatPackageName", getStr raw "goatPackageAlias",
        getStr raw "goatPackagePath", getStr raw "granularity", getInt raw "diffPrecision" with
  | some a, some b, some c, some d, some e, some f, some g, some h, some i, some j =>
    match getInt raw "threads", getBool raw "race", getList raw "mainEntries", getList raw "printerConfigMode",
          getInt raw "printerConfigTabwidth", getInt raw "printerConfigIndent", getStr raw "dataType",
          getBool raw "verbose", getBool raw "skipNestedModules" with
    | some k, some l, some m, some n, some o, some p, some q, some r, some s =>
      some { appName := a, appVersion := b, oldBranch := c, newBranch := d, ignores := e, pkgName := f,
             pkgAlias := g, pkgPath := h, granularity := i, diffPrecision := j, threads := k, race := l,
             mainEntries := m, printerModes := n, tabwidth := o, indent := p, dataType := q, verbose := r,
             skipNested := s }
    | _, _, _, _, _, _, _, _, _ => none
  | _, _, _, _, _, _, _, _, _, _ => none

def unmarshal (text : Str) : Option Cfg :=
  match parseLines none (splitNL text) with
  | some raw => fromRaw raw
  | none => none

/-- `config.LoadConfig` on the bytes of the file -/
def load (env : Env) (text : Str) : Except Rej Cfg :=
  match unmarshal text with
  | some c => validate env c
  | none => .error .parse

/-! ## the class of values for which the round trip is claimed -/

def safeChar (c : Char) : Bool :=
  c.isAlphanum || "_-./+&<>'\" ".toList.contains c

def safeFirst (c : Char) : Bool := c.isAlphanum || c = '_' || c = '.' || c = '/'

/-- plain-scalar-safe: starts with a letter, digit, `_ . /`; continues with letters, digits and
    `_ - . / + & < > ' "` and inner spaces; does not end with a space; is not a YAML null word -/
def safeStr (s : Str) : Bool :=
  match s with
  | [] => false
  | c :: cs => safeFirst c && cs.all safeChar && (dropRight isSp (c :: cs) = c :: cs) && !nullWords.contains (c :: cs)

/-- all strings of a (validated) configuration that the template writes as plain scalars -/
def safeCfg (c : Cfg) : Bool :=
  safeStr c.appName && safeStr c.appVersion && safeStr c.oldBranch && safeStr c.newBranch &&
  c.ignores.all safeStr && safeStr c.pkgName && safeStr c.pkgAlias && safeStr c.pkgPath

end GoatSpec.Config
