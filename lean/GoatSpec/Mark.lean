import GoatSpec.Scopes
/-! # GoatSpec.Mark — which insert positions `IncrementalTrack.addStmts` decides on
    (pkg/tracking/increment.go), call by call.

The traversal produces an *event list* in the implementation's order; a fold over the events
keeps the implementation's bookkeeping (visited positions, visited scopes, patch-scope mark
arrays). Index errors of the Go code are explicit `Except` errors. -/
namespace GoatSpec

inductive Gran where | line | patch | scope | func
deriving Repr, DecidableEq

inductive Ev where
  | check (l : Nat)          -- checkAndMarkInsert(l)
  | force (l : Nat)          -- forceMarkInsert(l)
  | single (l c : Nat)       -- insertSingleLineStmt(l, c)
deriving Repr, DecidableEq

/-! ## statement walk: `processStatements` / `analyzeAndModifyExpr` -/
mutual
def evE : Expr → List Ev
  | .funcLit pl el _ _ first body =>
    match first with
    | none => []
    | some (l, c) => if pl == el then [.single l c] else evL body
  | .call fn args => evEs fn ++ evEs args
  | .composite _ elts => evEs elts
  | .keyValue _ v => evEs v
  | .unary x => evEs x
  | .structType fs => evEs fs
  | .other _ => []
def evEs : List Expr → List Ev
  | [] => []
  | e :: es => evE e ++ evEs es
def evS : Stmt → List Ev
  | .simple .mark l _ _ ent _ => .check l :: evEs ent
  | .simple .noMark _ _ _ _ _ => []
  | .simple (.decl n) l _ _ _ _ => List.replicate n (.check l)
  | .block l _ body => .check l :: evL body
  | .labeled _ _ inner => evS inner
  | .ifS _ _ _ _ _ _ _ _ body els => evL body ++ evElse els
  | .forS _ _ _ _ _ _ _ _ _ _ body => evL body
  | .rangeS _ _ _ _ _ _ _ _ body => evL body
  | .switchS _ _ _ _ _ _ _ _ cl => evL cl
  | .typeSwitchS _ _ _ _ _ _ _ _ cl => evL cl
  | .selectS _ _ _ _ cl => evL cl
  | .caseC _ _ _ _ _ body => evL body
  | .commC _ _ _ _ _ body => evL body
/-- the `Else` branch: an else-if is processed as a one-element statement list, a plain else
    block contributes its *list* (no check event for the block itself) -/
def evElse : List Stmt → List Ev
  | [] => []
  | s :: _ =>
    match s with
    | .block _ _ b => evL b
    | other => evS other
def evL : List Stmt → List Ev
  | [] => []
  | s :: ss => evS s ++ evL ss
end

/-! ## control-statement pass: `processControlStatements` (`ast.Inspect`, pre-order) -/

def rngChanged (ch : Nat → Bool) : ORng → Bool
  | none => false
  | some (s, e) => (List.range (e + 1 - s)).any (fun i => ch (s + i))

def clauseForces : List Stmt → List Ev
  | [] => []
  | .caseC _ _ _ _ colon body :: r => (if body.isEmpty then [] else [Ev.force (colon + 1)]) ++ clauseForces r
  | _ :: r => clauseForces r

mutual
def ctlE (ch : Nat → Bool) : Expr → List Ev
  | .funcLit _ _ _ _ _ body => ctlL ch body
  | .call fn args => ctlEs ch fn ++ ctlEs ch args
  | .composite typ elts => ctlEs ch typ ++ ctlEs ch elts
  | .keyValue k v => ctlEs ch k ++ ctlEs ch v
  | .unary x => ctlEs ch x
  | .structType fs => ctlEs ch fs
  | .other cs => ctlEs ch cs
def ctlEs (ch : Nat → Bool) : List Expr → List Ev
  | [] => []
  | e :: es => ctlE ch e ++ ctlEs ch es
def ctlS (ch : Nat → Bool) : Stmt → List Ev
  | .simple _ _ _ pre ent post => ctlEs ch pre ++ ctlEs ch ent ++ ctlEs ch post
  | .block _ _ body => ctlL ch body
  | .labeled _ _ inner => ctlS ch inner
  | .ifS l _ init initR condR cond lb _ body els =>
    (if ch l || rngChanged ch initR || rngChanged ch condR then
        Ev.force (lb + 1) :: (match els with
          | [.block bl _ b] => if b.isEmpty then [] else [Ev.force (bl + 1)]
          | _ => [])
      else [])
    ++ ctlL ch init ++ ctlEs ch cond ++ ctlL ch body ++ ctlL ch els
  | .forS l _ init initR condR postR cond post lb _ body =>
    (if ch l || rngChanged ch initR || rngChanged ch condR || rngChanged ch postR then [Ev.force (lb + 1)] else [])
    ++ ctlL ch init ++ ctlEs ch cond ++ ctlL ch post ++ ctlL ch body
  | .rangeS l _ keyR valR xR kvx lb _ body =>
    (if ch l || rngChanged ch keyR || rngChanged ch valR || rngChanged ch xR then [Ev.force (lb + 1)] else [])
    ++ ctlEs ch kvx ++ ctlL ch body
  | .switchS l _ init initR tagR tag _ _ cl =>
    (if ch l || rngChanged ch initR || rngChanged ch tagR then clauseForces cl else [])
    ++ ctlL ch init ++ ctlEs ch tag ++ ctlL ch cl
  | .typeSwitchS l _ init initR asgR asg _ _ cl =>
    (if ch l || rngChanged ch initR || rngChanged ch asgR then clauseForces cl else [])
    ++ ctlL ch init ++ ctlL ch asg ++ ctlL ch cl
  | .selectS _ _ _ _ cl => ctlL ch cl
  | .caseC l _ listR list colon body =>
    (if ch l || listR.any (fun r => rngChanged ch (some r)) then [Ev.force (colon + 1)] else [])
    ++ ctlEs ch list ++ ctlL ch body
  | .commC l _ commR comm colon body =>
    (if ch l || rngChanged ch commR then [Ev.force (colon + 1)] else [])
    ++ ctlL ch comm ++ ctlL ch body
def ctlL (ch : Nat → Bool) : List Stmt → List Ev
  | [] => []
  | s :: ss => ctlS ch s ++ ctlL ch ss
end

/-! ## global value specs: outermost function literals of an expression -/
mutual
def outerE : Expr → List Expr
  | .funcLit pl el lb rb first body => [.funcLit pl el lb rb first body]
  | .call fn args => outerEs fn ++ outerEs args
  | .composite typ elts => outerEs typ ++ outerEs elts
  | .keyValue k v => outerEs k ++ outerEs v
  | .unary x => outerEs x
  | .structType fs => outerEs fs
  | .other cs => outerEs cs
def outerEs : List Expr → List Expr
  | [] => []
  | e :: es => outerE e ++ outerEs es
end

/-- `processGlobalValueSpecs` on one outermost literal: the single-line test compares the
    *body braces* here (unlike `analyzeAndModifyExpr`) -/
def globalLitEvents : Expr → List Ev
  | .funcLit _ _ lb rb first body =>
    match first with
    | none => []
    | some (l, c) => if lb == rb then [.single l c] else evL body
  | _ => []

def globalLitCtl (ch : Nat → Bool) : Expr → List Ev
  | .funcLit _ _ _ _ _ body => ctlL ch body
  | _ => []

/-- `addStmts`: the events of one top-level declaration -/
def declEvents (ch : Nat → Bool) : Decl → List Ev
  | .funcDecl none => []
  | .funcDecl (some (lb, rb, first, stmts)) =>
    match first with
    | none => []
    | some (l, c) => (if lb == rb then [Ev.single l c] else []) ++ evL stmts ++ ctlL ch stmts
  | .genDecl vs =>
    let lits := outerEs vs
    lits.flatMap globalLitEvents ++ lits.flatMap (globalLitCtl ch)

def fileEvents (ch : Nat → Bool) (f : File) : List Ev := f.decls.flatMap (declEvents ch)

/-! ## bookkeeping -/

inductive MarkErr where
  | nilBody            -- nil pointer dereference in FunctionScopesOfAST
  | indexOutOfRange    -- a slice index out of range (panic)
  | scopes             -- index out of range inside PrepareChildren
deriving Repr, DecidableEq

structure Env where
  gran : Gran
  n : Nat                        -- len(source)
  changed : Array Bool           -- lineChanges, length n+1
  comments : Array Bool          -- comments, length n+1
  funcs : List (Nat × Nat)       -- functionScopes (sorted, index 0 = file scope)
  trees : List TScope            -- trackScopes (patch / scope granularity only)

/-- per-key patch scope: bounds of the enclosing function and the mark array -/
structure PatchScope where
  s : Nat
  e : Nat
  marks : Array Nat

structure MState where
  multi : List Nat := []                     -- insertedPositions (lines, in insertion order)
  singles : List (Nat × Nat) := []           -- singleLineInsertedPositions (in insertion order)
  count : Nat := 0
  visitedScopes : List (Nat × Nat) := []
  patch : List ((Nat × Nat) × PatchScope) := []

def Env.isChanged (env : Env) (l : Nat) : Except MarkErr Bool :=
  if h : l < env.changed.size then .ok env.changed[l] else .error .indexOutOfRange

def Env.isComment (env : Env) (l : Nat) : Except MarkErr Bool :=
  if h : l < env.comments.size then .ok env.comments[l] else .error .indexOutOfRange

/-- `for t.comments[line] { line++ }` -/
def skipComments (env : Env) : Nat → Nat → Except MarkErr Nat
  | 0, _ => .error .indexOutOfRange
  | fuel+1, l =>
    match env.isComment l with
    | .error e => .error e
    | .ok true => skipComments env fuel (l + 1)
    | .ok false => .ok l

/-- `markInsert` -/
def markInsert (env : Env) (st : MState) (line : Nat) : Except MarkErr MState :=
  match skipComments env (env.comments.size + 1) line with
  | .error e => .error e
  | .ok l =>
    if searchScopes env.funcs l == 0 then .ok st
    else if st.multi.contains l then .ok st
    else .ok { st with multi := st.multi ++ [l], count := st.count + 1 }

def newPatchScope (env : Env) (s e : Nat) : Except MarkErr PatchScope :=
  let len := e - s - 1
  -- initMarks(lineChanges) then initMarks(comments): marks[i] = 1 where either holds for line s+i+1
  let rec fill (i : Nat) (fuel : Nat) (acc : Array Nat) : Except MarkErr (Array Nat) :=
    match fuel with
    | 0 => .ok acc
    | f+1 =>
      match env.isChanged (s + i + 1), env.isComment (s + i + 1) with
      | .ok a, .ok b => fill (i + 1) f (acc.push (if a || b then 1 else 0))
      | .error er, _ => .error er
      | _, .error er => .error er
  match fill 0 len #[] with
  | .error er => .error er
  | .ok m => .ok ⟨s, e, m⟩

def PatchScope.get (p : PatchScope) (line : Nat) : Except MarkErr Nat :=
  let i := line - p.s - 1
  if line ≤ p.s then .error .indexOutOfRange
  else if h : i < p.marks.size then .ok p.marks[i] else .error .indexOutOfRange

/-- `canInsert` -/
def PatchScope.canInsert (p : PatchScope) (line : Nat) : Except MarkErr Bool :=
  match p.get line with
  | .error e => .error e
  | .ok 2 => .ok false
  | .ok _ =>
    -- for j := line-1; j > s; j-- { if marks[j]==1 continue; return marks[j] != 2 }; return true
    let rec back (j : Nat) (fuel : Nat) : Except MarkErr Bool :=
      match fuel with
      | 0 => .ok true
      | f+1 =>
        if j ≤ p.s then .ok true
        else match p.get j with
          | .error e => .error e
          | .ok 1 => back (j - 1) f
          | .ok v => .ok (v != 2)
    back (line - 1) line

/-- `markInserted` -/
def PatchScope.markInserted (p : PatchScope) (line : Nat) : Except MarkErr PatchScope :=
  match p.get line with
  | .error e => .error e
  | .ok v =>
    let i0 := line - p.s - 1
    let m0 := if v == 1 then p.marks.setIfInBounds i0 2 else p.marks
    let rec down (j : Nat) (fuel : Nat) (m : Array Nat) : Array Nat :=
      match fuel with
      | 0 => m
      | f+1 =>
        if j ≤ p.s then m
        else if m.getD (j - p.s - 1) 0 == 1 then down (j - 1) f (m.setIfInBounds (j - p.s - 1) 2) else m
    let rec up (j : Nat) (fuel : Nat) (m : Array Nat) : Array Nat :=
      match fuel with
      | 0 => m
      | f+1 =>
        if j ≥ p.e then m
        else if m.getD (j - p.s - 1) 0 == 1 then up (j + 1) f (m.setIfInBounds (j - p.s - 1) 2) else m
    let m1 := down (line - 1) line m0
    let m2 := up (line + 1) (p.e - line) m1
    .ok { p with marks := m2 }

/-- `forceMarkInsert` -/
def forceMark (env : Env) (st : MState) (line : Nat) : Except MarkErr MState :=
  match env.gran with
  | .line => markInsert env st line
  | .func =>
    let idx := searchScopes env.funcs line
    if idx == 0 then .ok st
    else match env.funcs[idx]? with
      | some (s, _) => markInsert env st (s + 1)
      | none => .error .indexOutOfRange
  | .scope =>
    match searchTrees env.trees line with
    | none => .ok st
    | some t =>
      let key := t.search line
      if st.visitedScopes.contains key then .ok st
      else markInsert env { st with visitedScopes := key :: st.visitedScopes } line
  | .patch =>
    match searchTrees env.trees line with
    | none => .ok st
    | some t =>
      let key := t.search line
      let psE : Except MarkErr PatchScope :=
        match st.patch.lookup key with
        | some p => .ok p
        | none => newPatchScope env t.s t.e
      match psE with
      | .error e => .error e
      | .ok ps =>
        let st1 := if (st.patch.lookup key).isNone then { st with patch := (key, ps) :: st.patch } else st
        match ps.canInsert line with
        | .error e => .error e
        | .ok false => .ok st1
        | .ok true =>
          match markInsert env st1 line, ps.markInserted line with
          | .ok st2, .ok ps2 =>
            .ok { st2 with patch := (key, ps2) :: st2.patch.filter (fun kv => kv.1 != key) }
          | .error e, _ => .error e
          | _, .error e => .error e

def stepEv (env : Env) (st : MState) : Ev → Except MarkErr MState
  | .check l =>
    match env.isChanged l with
    | .error e => .error e
    | .ok false => .ok st
    | .ok true => forceMark env st l
  | .force l => forceMark env st l
  | .single l c =>
    match env.isChanged l with
    | .error e => .error e
    | .ok false => .ok st
    | .ok true => .ok { st with count := st.count + 1, singles := st.singles ++ [(l, c)] }

def runEvents (env : Env) (evs : List Ev) : Except MarkErr MState :=
  evs.foldlM (stepEv env) {}

/-- `initLineChanges`: index panic when a range leaves `[0, n]` -/
def initChanged (n : Nat) (ranges : List (Nat × Nat)) : Except MarkErr (Array Bool) :=
  ranges.foldlM (fun (a : Array Bool) (r : Nat × Nat) =>
    (List.range r.2).foldlM (fun (a : Array Bool) i =>
      if r.1 + i < a.size then .ok (a.setIfInBounds (r.1 + i) true) else .error .indexOutOfRange) a)
    (Array.replicate (n + 1) false)

def commentArray (codes : Array Nat) : Array Bool :=
  #[false] ++ codes.map commentLikeCode

def mkEnv (f : File) (gran : Gran) (ranges : List (Nat × Nat)) : Except MarkErr Env :=
  match functionScopes f with
  | none => .error .nilBody
  | some funcs =>
    let treesE : Except MarkErr (List TScope) :=
      if gran == .patch || gran == .scope then
        match trackScopes f with
        | none => .error .nilBody
        | some (.error _) => .error .scopes
        | some (.ok ts) => .ok ts
      else .ok []
    match treesE with
    | .error e => .error e
    | .ok trees =>
      match initChanged f.lineCodes.size ranges with
      | .error e => .error e
      | .ok ch =>
        .ok { gran := gran, n := f.lineCodes.size, changed := ch, comments := commentArray f.lineCodes,
              funcs := funcs, trees := trees }

/-- sort + dedup of insert positions (`Unique` then `Sort`) -/
def sortNat (l : List Nat) : List Nat := l.foldr (fun x acc =>
  let rec ins : List Nat → List Nat
    | [] => [x]
    | y :: ys => if x < y then x :: y :: ys else if x == y then y :: ys else y :: ins ys
  ins acc) []

def sortPairs (l : List (Nat × Nat)) : List (Nat × Nat) := l.foldr (fun x acc =>
  let rec ins : List (Nat × Nat) → List (Nat × Nat)
    | [] => [x]
    | y :: ys =>
      if x.1 < y.1 || (x.1 == y.1 && x.2 < y.2) then x :: y :: ys
      else if x == y then y :: ys else y :: ins ys
  ins acc) []

structure Marks where
  multi : List Nat             -- sorted, unique
  singles : List (Nat × Nat)   -- sorted, unique, lines *not* shifted
  count : Nat
deriving Repr

/-- everything `addStmts` decides before `doInsert` -/
def marks (f : File) (gran : Gran) (ranges : List (Nat × Nat)) : Except MarkErr Marks :=
  match mkEnv f gran ranges with
  | .error e => .error e
  | .ok env =>
    let ch := fun l => env.changed.getD l false
    match runEvents env (fileEvents ch f) with
    | .error e => .error e
    | .ok st => .ok ⟨sortNat st.multi, sortPairs st.singles, st.count⟩

end GoatSpec
