import GoatSpec.Basic
/-! # GoatSpec.Ids — id numbering, total ids, component tables and the import closure
    (pkg/goat/{track,patch,goat}.go replaceTracks / getTotalTrackIdxs / getComponentTrackIdxs,
     pkg/maininfo collectImports). Directories and paths are abstract identifiers (Nat / String). -/
namespace GoatSpec

/-- `replaceTracks`: files in sorted-path order with their placeholder counts; a running counter
    assigns each file the interval `[start, start+count-1]` (recorded also for count 0). -/
def number : Nat → List (String × Nat) → List (String × Nat × Nat)
  | _, [] => []
  | start, (p, c) :: r => (p, start, start + c - 1) :: number (start + c) r

/-- the ids of an interval: `for i := start; i <= end; i++` -/
def idsOf (iv : String × Nat × Nat) : List Nat := List.range' iv.2.1 (iv.2.2 + 1 - iv.2.1)

def totalCount (fs : List (String × Nat)) : Nat := (fs.map (·.2)).sum

/-- insertion sort (sort.Ints) -/
def insertNat (x : Nat) : List Nat → List Nat
  | [] => [x]
  | y :: ys => if x ≤ y then x :: y :: ys else y :: insertNat x ys

def sortInts (l : List Nat) : List Nat := l.foldr insertNat []

/-- the two-pointer dedup of a sorted slice in `getTotalTrackIdxs` -/
def dedupSorted : List Nat → List Nat
  | [] => []
  | [x] => [x]
  | x :: y :: r => if x == y then dedupSorted (y :: r) else x :: dedupSorted (y :: r)

/-- `getTotalTrackIdxs` (map iteration order is irrelevant after the sort; modelled on the
    intervals in any given order) -/
def totalIds (ivs : List (String × Nat × Nat)) : List Nat := dedupSorted (sortInts (ivs.flatMap idsOf))

/-- `getComponentTrackIdxs` for one main: ids of the files whose directory is one of `imports`,
    concatenated per import entry, then sorted. `dirOf` = filepath.Dir. -/
def componentIds (dirOf : String → String) (ivs : List (String × Nat × Nat)) (imports : List String) : List Nat :=
  sortInts (imports.flatMap (fun d => (ivs.filter (fun iv => dirOf iv.1 == d)).flatMap idsOf))

/-! ## import closure: `collectImports` as a depth-first walk with a global visited list -/

mutual
/-- `collectImports(dir)`; `fuel` bounds the recursion depth; `imp d` = internal imports of the
    non-test Go files of directory `d` in file order; `dirExists` = the package directory can be read -/
def collect (imp : Nat → List Nat) : Nat → Nat → List Nat → List Nat
  | 0, _, v => v
  | fuel+1, dir, v => collectL imp fuel (imp dir) dir v
def collectL (imp : Nat → List Nat) : Nat → List Nat → Nat → List Nat → List Nat
  | _, [], _, v => v
  | fuel, p :: ps, cur, v =>
      if p ∈ v then collectL imp fuel ps cur v
      else
        let v1 := p :: v
        let v2 := if p ≠ cur then collect imp fuel p v1 else v1
        collectL imp fuel ps cur v2
end

/-- closedness: every visited package has all its imports visited (what completeness means
    for a visited set that contains the main's imports) -/
def closedUnder (imp : Nat → List Nat) (v : List Nat) : Bool :=
  v.all (fun p => (imp p).all (fun q => v.contains q))

/-! ## which main packages start the tracking service (`applyMainEntries`, `Config.IsMainEntry`) -/

/-- `Config.IsMainEntry`: an entry `*`, or the main package's directory itself (string equality) -/
def isMainEntry (entries : List String) (dir : String) : Bool :=
  entries.any (fun e => e == "*" || e == dir)

/-- `applyMainEntries`: main package `i` (directory, ids of its component) gets the service-start
    block with component identifier `i` when it is selected and its component lists an id -/
def serviceStartsFrom (entries : List String) : Nat → List (String × List Nat) → List Nat
  | _, [] => []
  | i, (d, ids) :: r =>
    (if isMainEntry entries d && !ids.isEmpty then [i] else []) ++ serviceStartsFrom entries (i + 1) r

def serviceStarts (entries : List String) (mains : List (String × List Nat)) : List Nat :=
  serviceStartsFrom entries 0 mains

end GoatSpec
