import GoatSpec.Proto
import GoatSpec.Ids
/-! driver handlers for C05 (numbering, tables, closure) -/
namespace GoatSpec.Drv
open GoatSpec GoatSpec.Proto

def dirOfPath (p : String) : String :=
  match (p.splitOn "/").reverse with
  | _ :: [] => "."
  | _ :: r => "/".intercalate r.reverse
  | [] => "."

def parseCount (t : String) : String × Nat :=
  match (t.splitOn ":").reverse with
  | c :: r => (":".intercalate r.reverse, c.toNat?.getD 0)
  | [] => (t, 0)

def showIv (iv : String × Nat × Nat) : String := s!"{iv.1}:{iv.2.1}:{(iv.2.2 : Int) }"

/-- closure request: `<fuel> <main> <n> (<k> <imports…>)×n` with packages 0..n-1 -/
def parseGraph : List String → Option (Nat × Nat × (Nat → List Nat))
  | fuel :: main :: n :: rest =>
    match fuel.toNat?, main.toNat?, n.toNat? with
    | some fuel, some main, some n =>
      let rec go : Nat → List String → List (List Nat) → Option (List (List Nat))
        | 0, _, acc => some acc.reverse
        | j+1, k :: r, acc =>
          (match k.toNat? with
           | some k => go j (r.drop k) ((r.take k).filterMap String.toNat? :: acc)
           | none => none)
        | _, [], _ => none
      (go n rest []).map (fun adj => (fuel, main, fun d => adj.getD d []))
    | _, _, _ => none
  | _ => none

def handleIds (toks : List String) : Option String :=
  match toks with
  -- number <path:count>…  →  <path:start:end>… | <total ids…>
  | "number" :: fs =>
    let ivs := number 1 (fs.map parseCount)
    let ivText := " ".intercalate (ivs.map (fun iv => s!"{iv.1}:{iv.2.1}:{if iv.2.2 + 1 == iv.2.1 then "e" else toString iv.2.2}"))
    some s!"{ivText} | {natList (totalIds ivs)}"
  -- comp <path:count>… | <dir,dir,…> <dir,…> …   →  ids per main joined by ';'
  | "comp" :: rest =>
    let (fs, mains) := (rest.takeWhile (· != "|"), (rest.dropWhile (· != "|")).drop 1)
    let ivs := number 1 (fs.map parseCount)
    some (" ; ".intercalate (mains.map (fun m =>
      let ids := componentIds dirOfPath ivs (if m == "-" then [] else m.splitOn ",")
      if ids.isEmpty then "-" else natList ids)))
  -- judge:number <path:count>… | <path:start:end>… | <total ids…>
  -- the property's wording: files taken in byte-wise path order, each file's calls in source
  -- order, receive consecutive identifiers starting at 1; the declared ids are 1..N
  | "judge:number" :: rest =>
    let fs := (rest.takeWhile (· != "|")).map parseCount
    let r1 := (rest.dropWhile (· != "|")).drop 1
    let ivToks := r1.takeWhile (· != "|")
    let tot := ((r1.dropWhile (· != "|")).drop 1).filterMap String.toNat?
    let sorted := fs.mergeSort (fun a b => a.1 ≤ b.1)
    let ivOf (p : String) : Option (Nat × Option Nat) :=
      ivToks.findSome? (fun t =>
        match (t.splitOn ":").reverse with
        | e :: st :: r => if ":".intercalate r.reverse == p then st.toNat?.map (fun s => (s, e.toNat?)) else none
        | _ => none)
    let rec walk (next : Nat) : List (String × Nat) → Bool
      | [] => true
      | (p, c) :: r =>
        match ivOf p with
        | some (s, e) => s == next && (if c == 0 then e.isNone || e == some (next - 1) else e == some (next + c - 1)) && walk (next + c) r
        | none => false
    let n := (fs.map (·.2)).sum
    some (if walk 1 sorted && tot == List.range' 1 n then "ok" else "bad C05:ids-not-1..N-by-path-and-source-order")
  -- serve <entry>… | <dir:count>…   →  indices of the main packages that start the service
  -- (tokens are protocol-encoded; the count stands for the length of the component's id list)
  | "serve" :: rest =>
    let es := (rest.takeWhile (· != "|")).map (fun t => String.ofList (decodeTok t))
    let ms := ((rest.dropWhile (· != "|")).drop 1).map (fun t =>
      let (d, c) := parseCount t
      (String.ofList (decodeTok d), List.range c))
    some (let r := serviceStarts es ms; if r.isEmpty then "-" else natList r)
  -- judge:serve <entry>… | <dir:count>… | <impl indices…> : exactly the selected main packages
  -- (listed, or `*`) whose component lists an id start the service, each once, with their own index
  | "judge:serve" :: rest =>
    let es := (rest.takeWhile (· != "|")).map (fun t => String.ofList (decodeTok t))
    let r1 := (rest.dropWhile (· != "|")).drop 1
    let ms := (r1.takeWhile (· != "|")).map (fun t =>
      let (d, c) := parseCount t
      (String.ofList (decodeTok d), c))
    let got := ((r1.dropWhile (· != "|")).drop 1).filterMap String.toNat?
    let want := (ms.zipIdx.filter (fun (p : (String × Nat) × Nat) => (es.contains "*" || es.contains p.1.1) && p.1.2 > 0)).map (·.2)
    some (if got == want then "ok" else "bad C05:service-start-selection")
  | "closure" :: rest =>
    match parseGraph rest with
    | some (fuel, main, imp) => some (natList (sortInts (collect imp fuel main [])))
    | none => some "error parse"
  -- judge:closure <graph> | <impl visited…> : closed under imports, contains the main's imports
  | "judge:closure" :: rest =>
    let (g, ans) := (rest.takeWhile (· != "|"), (rest.dropWhile (· != "|")).drop 1)
    match parseGraph g with
    | some (_, main, imp) =>
      let v := ans.filterMap String.toNat?
      let direct := (imp main).all (fun p => v.contains p)
      some (if closedUnder imp v && direct then "ok" else "bad C05:component-closure-not-closed-under-imports")
    | none => some "error parse"
  | _ => none

end GoatSpec.Drv
