import GoatSpec.Proto
import GoatSpec.Ids
/-! driver handlers for C05 (numbering, tables, closure) -/
namespace GoatSpec.Drv
open GoatSpec GoatSpec.Proto

def dirOfPath (p : String) : String :=
  match (p.splitOn "/").reverse with
  | _ :: [] => "."
  | _ :: r => "/".intercalate r.reverse
  | [] => "."

def parseCount (t : String) : String × Nat :=
  match (t.splitOn ":").reverse with
  | c :: r => (":".intercalate r.reverse, c.toNat?.getD 0)
  | [] => (t, 0)

def showIv (iv : String × Nat × Nat) : String := s!"{iv.1}:{iv.2.1}:{(iv.2.2 : Int) }"

/-- closure request: `<fuel> <main> <n> (<k> <imports…>)×n` with packages 0..n-1 -/
def parseGraph : List String → Option (Nat × Nat × (Nat → List Nat))
  | fuel :: main :: n :: rest =>
    match fuel.toNat?, main.toNat?, n.toNat? with
    | some fuel, some main, some n =>
      let rec go : Nat → List String → List (List Nat) → Option (List (List Nat))
        | 0, _, acc => some acc.reverse
        | j+1, k :: r, acc =>
          (match k.toNat? with
           | some k => go j (r.drop k) ((r.take k).filterMap String.toNat? :: acc)
           | none => none)
        | _, [], _ => none
      (go n rest []).map (fun adj => (fuel, main, fun d => adj.getD d []))
    | _, _, _ => none
  | _ => none

def handleIds (toks : List String) : Option String :=
  match toks with
  -- number <path:count>…  →  <path:start:end>… | <total ids…>
  | "number" :: fs =>
    let ivs := number 1 (fs.map parseCount)
    let ivText := " ".intercalate (ivs.map (fun iv => s!"{iv.1}:{iv.2.1}:{if iv.2.2 + 1 == iv.2.1 then "e" else toString iv.2.2}"))
    some s!"{ivText} | {natList (totalIds ivs)}"
  -- comp <path:count>… | <dir,dir,…> <dir,…> …   →  ids per main joined by ';'
  | "comp" :: rest =>
    let (fs, mains) := (rest.takeWhile (· != "|"), (rest.dropWhile (· != "|")).drop 1)
    let ivs := number 1 (fs.map parseCount)
    some (" ; ".intercalate (mains.map (fun m =>
      let ids := componentIds dirOfPath ivs (if m == "-" then [] else m.splitOn ",")
      if ids.isEmpty then "-" else natList ids)))
  | "closure" :: rest =>
    match parseGraph rest with
    | some (fuel, main, imp) => some (natList (sortInts (collect imp fuel main [])))
    | none => some "error parse"
  -- judge:closure <graph> | <impl visited…> : closed under imports, contains the main's imports
  | "judge:closure" :: rest =>
    let (g, ans) := (rest.takeWhile (· != "|"), (rest.dropWhile (· != "|")).drop 1)
    match parseGraph g with
    | some (_, main, imp) =>
      let v := ans.filterMap String.toNat?
      let direct := (imp main).all (fun p => v.contains p)
      some (if closedUnder imp v && direct then "ok" else "bad C05:component-closure-not-closed-under-imports")
    | none => some "error parse"
  | _ => none

end GoatSpec.Drv
