import GoatSpec.Proto
import GoatSpec.Paths
/-! driver handlers for C13 (eligibility rule and walkers) -/
namespace GoatSpec.Drv
open GoatSpec GoatSpec.Proto

def segs (t : String) : Path :=
  -- filepath.Clean on relative slash paths without "..": empty and "." segments vanish
  if t == "." || t == "~" then [] else (t.splitOn "/").filter (fun x => x != "" && x != ".")

/-- `<skip 0|1> <n> <ignore…> <m> <nested root…>` then the rest -/
def parsePathCfg (toks : List String) : Option (PathCfg × List String) :=
  match toks with
  | sk :: n :: rest =>
    match n.toNat? with
    | none => none
    | some n =>
      let ign := (rest.take n).map segs
      match rest.drop n with
      | m :: rest2 =>
        match m.toNat? with
        | none => none
        | some m => some (⟨ign, sk == "1", (rest2.take m).map segs⟩, rest2.drop m)
      | [] => none
  | _ => none

partial def parseTree : List String → Option (Tree × List String)
  | "F" :: n :: rest => some (.file n, rest)
  | "D" :: n :: k :: rest =>
    match k.toNat? with
    | none => none
    | some k =>
      let rec go : Nat → List String → List Tree → Option (List Tree × List String)
        | 0, r, acc => some (acc.reverse, r)
        | j+1, r, acc => match parseTree r with
          | some (t, r') => go j r' (t :: acc)
          | none => none
      (go k rest []).map (fun (cs, r) => (.dir n cs, r))
  | _ => none

/-- the property's own wording of eligibility, used as judge (C13): a non-test Go file whose
    path has no `vendor`/`node_modules` first segment, no `testdata` segment, is not under an
    ignored directory nor an ignored file itself, and not inside a nested module when skipping -/
def specEligible (c : PathCfg) (p : Path) : Bool :=
  match p.reverse with
  | [] => false
  | name :: rdir =>
    let dir := rdir.reverse
    name.endsWith ".go" && !name.endsWith "_test.go"
    && dir.head? != some "vendor" && dir.head? != some "node_modules"
    && !dir.any (· == "testdata")
    && c.ignores.all (fun e => !(e.isPrefixOf p))
    && !(c.skipNested && c.nestedRoots.any (fun r => r.isPrefixOf dir && !dir.isEmpty))

def handlePaths (toks : List String) : Option String :=
  match toks with
  | "pathdir" :: rest =>
    match parsePathCfg rest with
    | some (c, [d]) => some (b2s (isTargetDir c (segs d)))
    | _ => some "error parse"
  | "pathfile" :: rest =>
    match parsePathCfg rest with
    | some (c, [f]) =>
      let p := segs f
      (match p.reverse with
       | n :: rd => some (b2s (isTargetFile c rd.reverse n))
       | [] => some "0")
    | _ => some "error parse"
  | "walk" :: rest =>
    match parsePathCfg rest with
    | some (c, tr) =>
      (match parseTree tr with
       | some (.dir _ cs, []) => some (" ".intercalate (((walkL c [] cs).map (fun p => "/".intercalate p)).toArray.qsort (· < ·)).toList)
       | _ => some "error tree")
    | none => some "error parse"
  -- ncache <nested root…> | <query dir…>  →  the answers of one configuration to the queries in order
  | "ncache" :: rest =>
    let nested := (rest.takeWhile (· != "|")).map segs
    let qs := ((rest.dropWhile (· != "|")).drop 1).map segs
    some (" ".intercalate ((runNested nested [] qs).map b2s))
  -- judge:ncache <nested root…> | <query dir…> | <impl answers…> : every answer is the stateless rule
  -- (the directory or an ancestor below the project root holds a go.mod), whatever was asked before
  | "judge:ncache" :: rest =>
    let nested := (rest.takeWhile (· != "|")).map segs
    let r1 := (rest.dropWhile (· != "|")).drop 1
    let qs := (r1.takeWhile (· != "|")).map segs
    let ans := (r1.dropWhile (· != "|")).drop 1
    some (if ans == (qs.map (specNested nested)).map b2s then "ok" else "bad C13:nested-module-answer-depends-on-earlier-queries")
  | "judge:pathfile" :: rest =>
    match parsePathCfg rest with
    | some (c, [f, "|", ans]) => some (if b2s (specEligible c (segs f)) == ans then "ok" else "bad C13:eligibility-differs-from-rule")
    | _ => some "error parse"
  | _ => none

end GoatSpec.Drv
