import GoatSpec.Proto
import GoatSpec.TextSpec
/-! driver handlers for the text family (C06, C10) -/
namespace GoatSpec.Drv
open GoatSpec GoatSpec.Proto

def parseMk (s : String) : Option Mk :=
  match s with
  | "generate" => some .generate | "delete" => some .delete | "main" => some .main
  | "user" => some .user | "insert" => some .insert | "endm" => some .endm | _ => none

def impCode (a : ImportAct) : String :=
  match a with | .keep => "k" | .add => "a" | .delete => "d"

def optBool (o : Option Bool) : String :=
  match o with | none => "skip" | some true => "ok" | some false => "bad"

/-- split `a b c | d e` at the first `|` token -/
def splitBar (ts : List String) : List String × List String :=
  (ts.takeWhile (· != "|"), (ts.dropWhile (· != "|")).drop 1)

def handleText (toks : List String) : Option String :=
  match toks with
  -- pass <kind> <e|b> <lines…>   →  <count> <lines…>
  | "pass" :: k :: r :: ls =>
    match parseMk k with
    | some k =>
      let p := pass k (if r == "b" then insertBlock else []) (ls.map decodeTok)
      some s!"{p.1} {encodeLines p.2}"
    | none => some "error bad-kind"
  | "clean" :: ls =>
    let p := cleanLines (ls.map decodeTok)
    some s!"{b2s p.1} {encodeLines p.2}"
  | "patch" :: m :: ls =>
    let p := patchLines (m == "1") (ls.map decodeTok)
    let imps := if p.imports.isEmpty then "-" else ",".intercalate (p.imports.map impCode)
    some s!"{b2s p.updated} {b2s p.changed} {imps} {encodeLines p.lines}"
  -- judge:clean <input lines…> | <changed> <output lines…>
  | "judge:clean" :: rest =>
    let (inp, out) := splitBar rest
    match out with
    | ch :: ols => some (optBool (cleanOK (inp.map decodeTok) (ch == "1") (ols.map decodeTok)))
    | [] => some "error no-output"
  | "judge:patch" :: m :: rest =>
    let (inp, out) := splitBar rest
    match out with
    | up :: ch :: ols => some (optBool (patchOK (m == "1") (inp.map decodeTok) (up == "1") (ch == "1") (ols.map decodeTok)))
    | _ => some "error no-output"
  | _ => none

end GoatSpec.Drv

namespace GoatSpec.Drv
open GoatSpec GoatSpec.Proto

def rtrim (l : Line) : Line := (l.reverse.dropWhile isWs).reverse

/-- canonical form of a file's lines for the file-level streams: trimmed, blank lines and
    `import …` lines dropped (go/printer re-indents and the import edit is recorded separately) -/
def canonLines (ls : List Line) : List Line :=
  ((ls.map (fun l => rtrim (ltrim l))).filter (fun l => !l.isEmpty)).filter
    (fun l => !("import ".toList.isPrefixOf l))

def handleTextFile (toks : List String) : Option String :=
  match toks with
  -- cleanfile <lines…>  →  <changed> <canonical lines…>     (CleanExecutor.prepareContent)
  | "cleanfile" :: ls =>
    let p := cleanLines (ls.map decodeTok)
    some s!"{b2s p.1} {encodeLines (canonLines p.2)}"
  -- patchfile <isMain> <import present> <lines…> → not-updated | <changed> <import present after> <canonical lines…>
  | "patchfile" :: m :: imp :: ls =>
    let p := patchLines (m == "1") (ls.map decodeTok)
    if !p.updated then some "not-updated"
    else some s!"{b2s p.changed} {b2s (applyImports (imp == "1") p.imports)} {encodeLines (canonLines p.lines)}"
  -- judge:cleanfile <lines…> | <changed> <canonical lines…>     (C06 on the real prepareContent)
  | "judge:cleanfile" :: rest =>
    let (inp, out) := splitBar rest
    match out with
    | ch :: ols =>
      let inp := inp.map decodeTok
      let ols := ols.map decodeTok
      match parseItems inp with
      | none => some "skip"
      | some items =>
        let want := canonLines (flatten (items.filter (fun it => it.kind.isNone)))
        let why := (if ols == want then "" else " C06:user-lines-differ-or-artefact-lines-left")
          ++ (if ols.all plain then "" else " C06:marker-line-left")
          ++ (if (ch == "1") == items.any (fun it => it.kind.isSome) then "" else " C06:changed-flag")
        some (if why.isEmpty then "ok" else "bad" ++ why)
    | [] => some "bad C06:no-answer"
  -- judge:patchfile <isMain> <import present> <lines…> | not-updated | error … | <changed> <import after> <canonical lines…>
  | "judge:patchfile" :: m :: imp :: rest =>
    let (inp, out) := splitBar rest
    let inp := inp.map decodeTok
    let isMain := m == "1"
    match parseItems inp with
    | none => some "skip"
    | some items =>
      let upd := items.any (fun it => isK .delete it || isK .insert it || isK .generate it || (isMain && isK .main it))
      match out with
      | ["not-updated"] => some (if upd then "bad C10:file-with-markers-not-rewritten" else "ok")
      | "error" :: _ => some "bad C10:well-formed-arrangement-rejected"
      | ch :: hi :: ols =>
        let ols := ols.map decodeTok
        let want := canonLines (flatten (patchExpected isMain items))
        let why := (if ols == want then "" else " C10:blocks-or-user-lines-differ")
          ++ (if upd then "" else " C10:file-without-markers-rewritten")
          ++ (if (ch == "1") == items.any (fun it => isK .delete it || isK .insert it) then "" else " C10:changed-flag")
          ++ (if !importConsistent isMain (imp == "1") items || (hi == "1") == importExpected isMain items then ""
              else " C10:tracking-import-does-not-match-the-blocks")
        some (if why.isEmpty then "ok" else "bad" ++ why)
      | _ => some "bad C10:no-answer"
  | _ => none

end GoatSpec.Drv
