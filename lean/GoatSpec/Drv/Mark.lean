import GoatSpec.Proto
import GoatSpec.Mark
import GoatSpec.MarkSpec
import GoatSpec.Layout
import GoatSpec.Coherence
import GoatSpec.Drv.Text
import GoatSpec.Splice
import GoatSpec.Extracted
/-! driver handlers for the instrumenter family (C01, C02, C03, C09): abstract-file decoder and
    the `marks` / `scopes` requests -/
namespace GoatSpec.Drv
open GoatSpec GoatSpec.Proto

/-- a tiny parser monad over the token list -/
abbrev P := StateT (List String) (Except String)

def tok : P String := do
  match (← get) with
  | [] => throw "eof"
  | t :: r => set r; pure t

def nat : P Nat := do
  let t ← tok
  match t.toNat? with
  | some n => pure n
  | none => throw s!"nat expected, got {t}"

def pairTok (t : String) : Except String (Nat × Nat) :=
  match t.splitOn "," with
  | [a, b] => match a.toNat?, b.toNat? with
    | some x, some y => .ok (x, y)
    | _, _ => .error s!"pair expected, got {t}"
  | _ => .error s!"pair expected, got {t}"

def orng : P ORng := do
  let t ← tok
  if t == "-" then pure none else
    match pairTok t with
    | .ok p => pure (some p)
    | .error e => throw e

def pair : P (Nat × Nat) := do
  match pairTok (← tok) with
  | .ok p => pure p
  | .error e => throw e

def many {α : Type} (p : P α) : P (List α) := do
  let n ← nat
  let rec go : Nat → List α → P (List α)
    | 0, acc => pure acc.reverse
    | k+1, acc => do let x ← p; go k (x :: acc)
  go n []

mutual
partial def pExpr : P Expr := do
  let t ← tok
  match t with
  | "L" =>
    let pl ← nat; let el ← nat; let lb ← nat; let rb ← nat
    let first ← orng
    let body ← many pStmt
    pure (.funcLit pl el lb rb first body)
  | "C" => do let fn ← many pExpr; let args ← many pExpr; pure (.call fn args)
  | "K" => do let ty ← many pExpr; let el ← many pExpr; pure (.composite ty el)
  | "V" => do let k ← many pExpr; let v ← many pExpr; pure (.keyValue k v)
  | "U" => do let x ← many pExpr; pure (.unary x)
  | "T" => do let x ← many pExpr; pure (.structType x)
  | "O" => do let x ← many pExpr; pure (.other x)
  | _ => throw s!"expr tag expected, got {t}"
partial def pStmt : P Stmt := do
  let t ← tok
  match t with
  | "s" =>
    let k ← tok
    let kind : SKind := if k == "m" then .mark else if k == "n" then .noMark else .decl ((k.drop 1).toString.toNat?.getD 0)
    let l ← nat; let e ← nat
    let pre ← many pExpr; let ent ← many pExpr; let post ← many pExpr
    pure (.simple kind l e pre ent post)
  | "b" => do let l ← nat; let e ← nat; let b ← many pStmt; pure (.block l e b)
  | "l" => do let l ← nat; let e ← nat; let i ← pStmt; pure (.labeled l e i)
  | "i" =>
    let l ← nat; let e ← nat; let init ← many pStmt; let ir ← orng; let cr ← orng
    let cond ← many pExpr; let lb ← nat; let rb ← nat; let body ← many pStmt; let els ← many pStmt
    pure (.ifS l e init ir cr cond lb rb body els)
  | "f" =>
    let l ← nat; let e ← nat; let init ← many pStmt; let ir ← orng; let cr ← orng; let pr ← orng
    let cond ← many pExpr; let post ← many pStmt; let lb ← nat; let rb ← nat; let body ← many pStmt
    pure (.forS l e init ir cr pr cond post lb rb body)
  | "r" =>
    let l ← nat; let e ← nat; let kr ← orng; let vr ← orng; let xr ← orng
    let kvx ← many pExpr; let lb ← nat; let rb ← nat; let body ← many pStmt
    pure (.rangeS l e kr vr xr kvx lb rb body)
  | "w" =>
    let l ← nat; let e ← nat; let init ← many pStmt; let ir ← orng; let tr ← orng
    let tag ← many pExpr; let lb ← nat; let rb ← nat; let cl ← many pStmt
    pure (.switchS l e init ir tr tag lb rb cl)
  | "y" =>
    let l ← nat; let e ← nat; let init ← many pStmt; let ir ← orng; let ar ← orng
    let asg ← many pStmt; let lb ← nat; let rb ← nat; let cl ← many pStmt
    pure (.typeSwitchS l e init ir ar asg lb rb cl)
  | "e" => do let l ← nat; let e ← nat; let lb ← nat; let rb ← nat; let cl ← many pStmt; pure (.selectS l e lb rb cl)
  | "c" =>
    let l ← nat; let e ← nat; let rs ← many pair; let list ← many pExpr; let colon ← nat; let body ← many pStmt
    pure (.caseC l e rs list colon body)
  | "m" =>
    let l ← nat; let e ← nat; let cr ← orng; let comm ← many pStmt; let colon ← nat; let body ← many pStmt
    pure (.commC l e cr comm colon body)
  | _ => throw s!"stmt tag expected, got {t}"
end

def pDecl : P Decl := do
  let t ← tok
  match t with
  | "F" =>
    let b ← tok
    if b == "-" then pure (.funcDecl none) else
      match b.toNat? with
      | none => throw "lb expected"
      | some lb =>
        let rb ← nat; let first ← orng; let stmts ← many pStmt
        pure (.funcDecl (some (lb, rb, first, stmts)))
  | "G" => do let vs ← many pExpr; pure (.genDecl vs)
  | _ => throw s!"decl tag expected, got {t}"

def pFile : P File := do
  let pk ← nat; let en ← nat
  let codes ← tok
  let arr : Array Nat := if codes == "~" then #[] else (codes.toList.map (fun c => c.toNat - '0'.toNat)).toArray
  let lensT ← tok
  let lens : Array Nat := ((lensT.splitOn ",").map (fun t => t.toNat?.getD 0)).toArray
  let ds ← many pDecl
  pure ⟨pk, en, arr, lens, ds⟩

def pGran : P Gran := do
  match (← tok) with
  | "line" => pure .line | "patch" => pure .patch | "scope" => pure .scope | "func" => pure .func
  | t => throw s!"granularity expected, got {t}"

def errName : MarkErr → String
  | .nilBody => "panic-nil-body"
  | .indexOutOfRange => "panic-index"
  | .scopes => "panic-index-scopes"

def showPairs (l : List (Nat × Nat)) : String := " ".intercalate (l.map fun p => s!"{p.1},{p.2}")

partial def showTree : TScope → String
  | .mk s e cs => s!"({s},{e}" ++ String.join (cs.map fun c => " " ++ showTree c) ++ ")"

/-- marks <gran> <nranges> <s,n>…  (on the loaded file)
      →  ok <count> | <multi…> | <l,c …>   singles as `doInsert` leaves them (lines shifted) -/
def marksReq (f : File) : P String := do
  let g ← pGran
  let rs ← many pair
  match marks f g rs with
  | .error e => pure s!"err {errName e}"
  | .ok m =>
    if m.count == 0 then pure "ok 0 |  |  | 0" else
    let sh := shiftSingles f.lineCodes.size m.multi m.singles
    match writtenBlocks (Extracted.packageInsertStmts.map List.length) f.lineLens.toList m.multi m.singles with
    | none => pure "err panic-slice"
    | some w => pure s!"ok {m.count} | {natList m.multi} | {showPairs sh} | {w}"

def scopesReq (f : File) : P String := do
  match functionScopes f with
  | none => pure "err panic-nil-body"
  | some fs =>
    match trackScopes f with
    | some (.ok ts) => pure s!"ok {showPairs fs} | {" ".intercalate (ts.map showTree)}"
    | some (.error _) => pure s!"ok {showPairs fs} | err panic-index-scopes"
    | none => pure "err panic-nil-body"

def runP (p : P String) (toks : List String) : String :=
  match p.run toks with
  | .ok (s, []) => s
  | .ok (_, r) => s!"error trailing-tokens {r.length}"
  | .error e => s!"error parse {e.replace " " "_"}"

def parseFile (toks : List String) : Except String File :=
  match pFile.run toks with
  | .ok (f, []) => .ok f
  | .ok (_, r) => .error s!"trailing-tokens {r.length}"
  | .error e => .error (e.replace " " "_")

def handleMark (cur : Option File) (toks : List String) : Option String :=
  match toks, cur with
  | "marks" :: rest, some f => some (runP (marksReq f) rest)
  | "scopes" :: _, some f => some (runP (scopesReq f) [])
  | "marks" :: _, none => some "error no-file-loaded"
  | "scopes" :: _, none => some "error no-file-loaded"
  | _, _ => none

end GoatSpec.Drv

namespace GoatSpec.Drv
open GoatSpec GoatSpec.Proto

/-- parse `ok <count> | <multi…> | <l,c …> | <written>` -/
def parseAnswer (toks : List String) : Option Judged :=
  match toks with
  | "ok" :: c :: "|" :: rest =>
    let (m, r1) := splitBar rest
    let (s, r2) := splitBar r1
    match c.toNat?, r2 with
    | some cnt, [w] =>
      let singles := s.filterMap (fun t => (pairTok t).toOption)
      some ⟨m.filterMap String.toNat?, singles, cnt, w.toNat?.getD 0⟩
    | _, _ => none
  | _ => none

def hasLitShape (f : File) (p : Fn → Bool) : Bool := (fileFns f).any p

/-- which recorded defect class explains a failure of the implementation on this input -/
def failureClass (f : File) (g : Gran) (rs : List (Nat × Nat)) (implErr : String) : String :=
  match marks f g rs with
  | .error e => if errName e == implErr then s!"bad C01:track-panics({implErr})" else s!"bad C01:track-fails({implErr})"
  | .ok m =>
    let dupLine := (m.singles.map (·.1)).eraseDups.length != m.singles.length
    let inComment := m.multi.any (fun l => insideCommentCode (codeAt f l))
    -- a multi position on the line that holds a whole function body (multi-line signature,
    -- single-line body): the block lands inside the parameter list
    let sigBody := m.multi.any (fun l => (fileFns f).any (fun fn => fn.lb == fn.rb && fn.lb == l))
    if implErr == "panic-slice" && dupLine then "known D-C01-2"
    else if inComment then "known D-C01-6"
    else if implErr == "parse-error" && sigBody then "known D-C01-5"
    else if implErr == "parse-error" && dupLine then "known D-C01-2"
    else s!"bad C01:track-fails({implErr})"

mutual
def noMarkLinesE : Expr → List Nat
  | .funcLit _ _ _ _ _ body => noMarkLinesL body
  | .call fn args => noMarkLinesEs fn ++ noMarkLinesEs args
  | .composite typ elts => noMarkLinesEs typ ++ noMarkLinesEs elts
  | .keyValue k v => noMarkLinesEs k ++ noMarkLinesEs v
  | .unary x => noMarkLinesEs x
  | .structType fs => noMarkLinesEs fs
  | .other cs => noMarkLinesEs cs
def noMarkLinesEs : List Expr → List Nat
  | [] => []
  | e :: es => noMarkLinesE e ++ noMarkLinesEs es
def noMarkLinesS : Stmt → List Nat
  | .simple .noMark l _ pre ent post => l :: (noMarkLinesEs pre ++ noMarkLinesEs ent ++ noMarkLinesEs post)
  | .simple _ _ _ pre ent post => noMarkLinesEs pre ++ noMarkLinesEs ent ++ noMarkLinesEs post
  | .block _ _ body => noMarkLinesL body
  | .labeled _ _ inner => noMarkLinesS inner
  | .ifS _ _ init _ _ cond _ _ body els => noMarkLinesL init ++ noMarkLinesEs cond ++ noMarkLinesL body ++ noMarkLinesL els
  | .forS _ _ init _ _ _ cond post _ _ body => noMarkLinesL init ++ noMarkLinesEs cond ++ noMarkLinesL post ++ noMarkLinesL body
  | .rangeS _ _ _ _ _ kvx _ _ body => noMarkLinesEs kvx ++ noMarkLinesL body
  | .switchS _ _ init _ _ tag _ _ cl => noMarkLinesL init ++ noMarkLinesEs tag ++ noMarkLinesL cl
  | .typeSwitchS _ _ init _ _ asg _ _ cl => noMarkLinesL init ++ noMarkLinesL asg ++ noMarkLinesL cl
  | .selectS _ _ _ _ cl => noMarkLinesL cl
  | .caseC _ _ _ list _ body => noMarkLinesEs list ++ noMarkLinesL body
  | .commC _ _ _ comm _ body => noMarkLinesL comm ++ noMarkLinesL body
def noMarkLinesL : List Stmt → List Nat
  | [] => []
  | s :: ss => noMarkLinesS s ++ noMarkLinesL ss
end

def fileNoMarkLines (f : File) : List Nat :=
  f.decls.flatMap fun d => match d with
    | .funcDecl (some (_, _, _, stmts)) => noMarkLinesL stmts
    | .funcDecl none => []
    | .genDecl vs => noMarkLinesEs vs

/-- the line number after `@` in a reason -/
def reasonLine (r : String) : Nat := ((r.splitOn "@").getD 1 "0").toNat?.getD 0

/-- map a C03 reason to the recorded defect class it falls in, if any (DESIGN.md §7).
    D-C03-1 / D-C03-3 are structural (statement positions the pinned walker never visits).
    D-C03-45 (scope keys of the pinned tree: comment after `case x:`, bare blocks, else branch of
    a labelled if) is keyed by the concrete input: the same statement must be left unguarded by the
    scope rule of the pinned tree (`pinned` = the reasons of the model's own answer for this file,
    granularity and change set) — an unguarded statement the pinned rule does guard is new. -/
def classifyC03 (f : File) (g : Gran) (reached : List Nat) (reachedSingles : List Nat) (pinned : List String)
    (r : String) : Option String :=
  let l := reasonLine r
  if r.startsWith "C03:unguarded-statement" then
    if !reached.contains l then
      (if (fileNoMarkLines f).contains l then some "D-C03-1" else some "D-C03-3")
    else if (g == .scope || g == .patch) && pinned.contains r then some "D-C03-45" else none
  else if r.startsWith "C03:single-line-body" then
    if !reachedSingles.contains l then some "D-C03-3" else none
  else if r.startsWith "C03:header-branch" then
    if (g == .scope || g == .patch) && pinned.contains r then some "D-C03-45" else none
  else none

/-- judge:marks <gran> <ranges> | <implementation answer> -/
def judgeMarks (c : FileCtx) (reached reachedSingles : List Nat) (toks : List String) : String :=
  let f := c.f
  let (hd, ans) := splitBar toks
  let hd := if hd.head? == some "debug" then hd.drop 1 else hd
  match (do let g ← pGran; let rs ← many pair; pure (g, rs) : P (Gran × List (Nat × Nat))).run hd with
  | .error e => s!"error parse {e.replace " " "_"}"
  | .ok ((g, rs), _) =>
    match ans with
    | "err" :: cls :: _ => failureClass f g rs cls
    | _ =>
      match parseAnswer ans with
      | none => "error bad-answer"
      | some j =>
        match initChanged f.lineCodes.size rs with
        | .error _ => "skip"
        | .ok chArr =>
          let ch := fun l => chArr.getD l false
          -- the single positions before doInsert moved them: taken from the model when it agrees
          -- with the reported ones after shifting, else solved from the reported ones
          let cnt (l : Nat) := (j.multi.filter (· ≤ l)).length
          let unshift (p : Nat × Nat) : Nat × Nat :=
            let ks := (List.range (j.multi.length + 1)).filter (fun k => 4 * k ≤ p.1 && cnt (p.1 - 4 * k) == k)
            (p.1 - 4 * ks.headD 0, p.2)
          let modelAns := marks f g rs
          let modelSingles : Option (List (Nat × Nat)) :=
            match modelAns with
            | .ok m => if shiftSingles f.lineCodes.size m.multi m.singles == j.singles then some m.singles else none
            | .error _ => none
          let singles := modelSingles.getD (j.singles.map unshift)
          let dupLine := (singles.map (·.1)).eraseDups.length != singles.length
          if dupLine then "known D-C01-2" else
          let legal := legalReasons c { j with singles := singles }
          if legal.any (fun r => r.endsWith "call-inside-comment") then "known D-C01-6" else
          let c03 := c03Reasons c g ch j.multi singles
          let pinned := match modelAns with
            | .ok m => if g == .scope || g == .patch then c03Reasons c g ch m.multi m.singles else []
            | .error _ => []
          let classes := c03.map (fun r => (r, classifyC03 f g reached reachedSingles pinned r))
          let bad := legal ++ c09Reasons c g ch j.multi singles ++ ((classes.filter (·.2.isNone)).map (·.1)).take 3
          if toks.head? == some "debug" then " ".intercalate (legal ++ c09Reasons c g ch j.multi singles ++ c03) else
          if !bad.isEmpty then "bad " ++ " ".intercalate bad
          else
            let known := (classes.filterMap (·.2)).eraseDups
            if known.isEmpty then "ok" else "known " ++ " ".intercalate known

/-- judge:mono <count line> <count patch> <count scope> <count func> -/
def judgeMono (toks : List String) : String :=
  match toks.map String.toNat? with
  | [some a, some b, some c, some d] => if a ≥ b && b ≥ c && c ≥ d then "ok" else "bad C09:count-increases-with-coarser-granularity"
  | _ => "skip"

/-- loaded file with everything the judges precompute -/
structure Loaded where
  c : FileCtx
  reached : List Nat
  reachedSingles : List Nat

def mkLoaded (f : File) : Loaded :=
  let evs := fileEvents (fun _ => true) f
  { c := mkCtx f,
    reached := evs.filterMap (fun e => match e with | .check l => some l | _ => none),
    reachedSingles := evs.filterMap (fun e => match e with | .single l _ => some l | _ => none) }

/-- judge:wf — does the loaded file meet the layout hypothesis of C01.marks_legal -/
def judgeWf (f : File) : String :=
  if wfFileFunc f && linesInFuncOK f && boundariesInFuncOK f then "ok" else "skip wf:" ++ ",".intercalate (wfReasons f)

/-- judge:wflegal <gran> <ranges> — run-time cross-check of C01.marks_legal on the model's own
    answer: on a well-formed file every multi-line position is a statement boundary -/
def judgeWfLegal (f : File) (toks : List String) : String :=
  match (do let g ← pGran; let rs ← many pair; pure (g, rs) : P (Gran × List (Nat × Nat))).run toks with
  | .error e => s!"error parse {e.replace " " "_"}"
  | .ok ((g, rs), _) =>
    if !(if g == .func then wfFileFunc f else wfFile f) then "skip" else
    match marks f g rs with
    | .error _ => "skip"
    | .ok m => if m.multi.all (legalLine f) then "ok" else "bad C01:theorem-marks_legal-contradicted"

/-- judge:coh <ranges> — does the input meet the coherence hypothesis of `C09.func_le_scope`
    (`skip coh:…` when not); when it does, the theorem's conclusion is cross-checked on the
    model's own counts -/
def judgeCoh (f : File) (toks : List String) : String :=
  match (many pair : P (List (Nat × Nat))).run toks with
  | .error e => s!"error parse {e.replace " " "_"}"
  | .ok (rs, _) =>
    match mkEnv f .scope rs with
    | .error _ => "skip coh:no-env"
    | .ok env =>
      let a := activeLines env (fileEvents (fun l => env.changed.getD l false) f)
      if !a.all (cohLine env) then "skip coh:line"
      else if !(a.all (selfKey env) || a.all (fun l1 => a.all (freshPair env l1))) then "skip coh:shared-position"
      else match marks f .func rs, marks f .scope rs with
        | .ok mF, .ok mS => if mF.count ≤ mS.count then "ok" else "bad C09:theorem-func_le_scope-contradicted"
        | _, _ => "skip coh:no-run"

def handleMarkJudge (cur : Option Loaded) (toks : List String) : Option String :=
  match toks, cur with
  | "judge:wf" :: _, some l => some (judgeWf l.c.f)
  | "judge:wflegal" :: rest, some l => some (judgeWfLegal l.c.f rest)
  | "judge:coh" :: rest, some l => some (judgeCoh l.c.f rest)
  | "judge:marks" :: rest, some l => some (judgeMarks l.c l.reached l.reachedSingles rest)
  | "debug:marks" :: rest, some l => some (judgeMarks l.c l.reached l.reachedSingles ("debug" :: rest))
  | "judge:marks" :: _, none => some "error no-file-loaded"
  | "judge:mono" :: rest, _ => some (judgeMono rest)
  | _, _ => none

end GoatSpec.Drv
