import GoatSpec.Proto
import GoatSpec.Cmd
/-! driver handlers for the command layer (C11 abstract machine, C12 plans) -/
namespace GoatSpec.Drv
open GoatSpec GoatSpec.Proto

def parseCmdEnv (s : String) : Option CmdEnv :=
  match s.toList.map (· == '1') with
  | [a, b, c, d, e, f, g, h, i, j, k, l, m, n, o, p, q] => some ⟨a, b, c, d, e, f, g, h, i, j, k, l, m, n, o, p, q⟩
  | _ => none

def parseCmdName : String → Option Cmd
  | "init" => some .init | "track" => some .track | "patch" => some .patch | "clean" => some .clean | _ => none

def refusalName : Refusal → String
  | .notGoModule => "not-go-module" | .notGitRepo => "not-git-repo" | .configMissing => "config-missing"
  | .configExists => "config-exists" | .configInvalid => "config-invalid" | .alreadyInstrumented => "already-instrumented"
  | .uncommitted => "uncommitted" | .oldUnresolvable => "old-unresolvable" | .newUnresolvable => "new-unresolvable"
  | .newNotHead => "new-not-head" | .parseError => "parse-error" | .noMain => "no-main"

def writeName : Write → String
  | .config => "config" | .generated => "generated" | .source => "source" | .mainEntry => "main-entry"
  | .removeGenerated => "remove-generated" | .removeDir => "remove-dir"

def parseOp (t : String) : Option Op :=
  if t.startsWith "t" then
    match ((t.drop 1).toString.splitOn ",") with
    | [p, d] => p.toNat?.map (fun p => Op.track p (d == "1"))
    | _ => none
  else match t with
    | "pd" => some .patchDelete | "pi" => some .patchInsert | "pn" => some .patchNoop | "c" => some .clean
    | "u" => some .userEdit | "m" => some .commit | "d" => some .discard | "g" => some .switchGranularity
    | _ => none

def handleCmd (toks : List String) : Option String :=
  match toks with
  -- plan <cmd> <17 flags>  →  refuse <reason> | ok <writes…>
  | ["plan", c, fl] =>
    match parseCmdName c, parseCmdEnv fl with
    | some c, some e =>
      (match plan e c with
       | .error r => some s!"refuse {refusalName r}"
       | .ok ws => some ("ok " ++ " ".intercalate (ws.map writeName)))
    | _, _ => some "error parse"
  -- abs <ops…>  →  per step  <ok|refused>:<n>
  | "abs" :: ops =>
    match ops.mapM parseOp with
    | none => some "error parse"
    | some ops =>
      let (_, outs) := ops.foldl (fun (acc : Abs × List String) op =>
        let (s', o) := absStep acc.1 op
        (s', acc.2 ++ [s!"{if o == .ok then "ok" else "refused"}:{s'.n}"])) (({} : Abs), [])
      some (" ".intercalate outs)
  | _ => none

end GoatSpec.Drv
