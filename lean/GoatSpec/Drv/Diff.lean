import GoatSpec.Proto
import GoatSpec.Diff
/-! driver handlers for C04 / C17 (diff stage) -/
namespace GoatSpec.Drv
open GoatSpec GoatSpec.Proto GoatSpec.Diff

def dShowRanges (rs : List Range) : String :=
  if rs.isEmpty then "[]" else " ".intercalate (rs.map (fun r => s!"{r.1}:{r.2}"))

def dShowOptRanges : Option (List Range) → String
  | none => "-"
  | some rs => dShowRanges rs

/-- `e3` / `a0` / `d2` -/
def dParseChunk (t : String) : Option NChunk :=
  match t.toList with
  | 'e' :: r => (String.ofList r).toNat?.map (fun n => (Kind.eq, n))
  | 'a' :: r => (String.ofList r).toNat?.map (fun n => (Kind.add, n))
  | 'd' :: r => (String.ofList r).toNat?.map (fun n => (Kind.del, n))
  | _ => none

def dParseRange (t : String) : Option Range :=
  match t.splitOn ":" with
  | [a, b] => match a.toNat?, b.toNat? with
    | some a, some b => some (a, b)
    | _, _ => none
  | _ => none

/-- implementation answer: `-` (file not reported) or ranges -/
def dParseAnswer (toks : List String) : Option (Option (List Range)) :=
  match toks with
  | ["-"] => some none
  | ["[]"] => some (some [])
  | ts =>
    let rs := ts.filterMap dParseRange
    if rs.length == ts.length && !ts.isEmpty then some (some rs) else none

/-- `<k> (<id> <time> <np> <parents…>)×k` -/
def dParseTable : Nat → List String → List Commit → Option (Table × List String)
  | 0, r, acc => some (acc.reverse, r)
  | k + 1, id :: tm :: np :: r, acc =>
    match id.toNat?, tm.toNat?, np.toNat? with
    | some id, some tm, some np => dParseTable k (r.drop np) (⟨id, tm, (r.take np).filterMap String.toNat?⟩ :: acc)
    | _, _, _ => none
  | _, _, _ => none

def dTakeLines (toks : List String) : Option (List Line × List String) :=
  match toks with
  | n :: r => n.toNat?.map (fun n => ((r.take n).map decodeTok, r.drop n))
  | [] => none

/-- terminator-aware line tokens: every line but an unterminated last one carries its `\n` -/
def dWithTerm (ls : List Line) (term : Bool) : List Line :=
  match ls.reverse with
  | [] => []
  | l :: r => (r.reverse.map (· ++ ['\n'])) ++ [if term then l ++ ['\n'] else l]

/-- the property predicate of C04 on one file.
    mode: `1`,`2`,`3` precision; `I` INIT; `X` path must not appear.
    `splitLen` = `len(strings.Split(new, "\n"))`. Returns the list of violated clauses. -/
def diffReasons (mode : String) (hasOld : Bool) (oldTerm newTerm : Bool) (old new : List Line)
    (ans : Option (List Range)) : List String :=
  if mode == "X" then (if ans.isSome then ["C04:ineligible-or-deleted-path-reported"] else [])
  else
    let rs := ans.getD []
    let splitLen := new.length + (if newTerm then 1 else 0)
    let oldL := if hasOld then old else []
    let r1 := if rangesWF 1 splitLen rs then [] else ["C04:ranges-not-sorted-disjoint-in-bounds"]
    let r2 := if (unreported rs new).isSublist oldL then [] else
      [if hasOld then "C04:unreported-line-not-in-old-revision" else "C04:new-file-not-reported-in-full"]
    let r3 := if mode == "I" && ans.isNone then ["C04:init-eligible-file-not-reported"] else []
    let bounded := (mode == "2" || mode == "3") && hasOld
    let r4 := if bounded && old == new && oldTerm == newTerm && ans.isSome then ["C04:identical-file-reported"] else []
    let r5 := if bounded then
        let (p, s) := commonEnds (dWithTerm old oldTerm) (dWithTerm new newTerm)
        if (reported rs new).length + p + s ≤ new.length then [] else ["C04:more-lines-than-outside-common-ends"]
      else []
    r1 ++ r2 ++ r3 ++ r4 ++ r5

/-- class D-C04-2 (known finding, precision 2 and 3 only — the chunk walk that counts newline
    characters): the only thing wrong is that the unterminated last line of the new file is not reported — the predicate holds once that line is added to the report -/
def lastLineClass (mode : String) (hasOld oldTerm newTerm : Bool) (old new : List Line) (ans : Option (List Range)) : Bool :=
  (mode == "2" || mode == "3") && !newTerm && !new.isEmpty &&
    (let rs := (ans.getD []).filter (fun r => r.2 != 0)
     let rs' := rs ++ [(new.length, 1)]
     !covered rs new.length && (diffReasons mode hasOld oldTerm newTerm old new (some rs')).isEmpty)

/-- assumption A6 on one file: the lines of the new file blamed to the old revision or one of its
    ancestors occur, in order, in the old revision's version of the file. Where it fails (a merge
    whose conflict resolution brings back lines the old branch had deleted) no blame-based rule can
    see the line: class D-C04-3. -/
def a6Holds (old new : List Line) (anc : List Bool) : Bool :=
  ((new.zip anc).filterMap (fun p => if p.2 then some p.1 else none)).isSublist old

def handleDiff (toks0 : List String) : Option String :=
  -- `# …` at the end of a request is a case label (ignored)
  let toks := if toks0.head?.any (fun h => h == "dwalk" || h == "dblame") then toks0.takeWhile (· != "#") else toks0
  match toks with
  -- dwalk <prec 2|3> <elig> <hasFrom> <hasTo> <chunks…>
  | "dwalk" :: prec :: elig :: hf :: ht :: cs =>
    let chunks := cs.filterMap dParseChunk
    if chunks.length != cs.length then some "error parse" else
    let (elig, hf, ht) := (elig == "1", hf == "1", ht == "1")
    if prec == "2" then some (dShowOptRanges (analyzeV2 elig hf ht chunks))
    else some (dShowOptRanges (analyzeV3 elig (if !ht then .delete else if !hf then .insert else .modify) chunks))
  -- dblame <rule t|a> <elig> <act i|m|d> <nlines> <old> <oldTime> <k> <table…> | <blame ids…>
  | "dblame" :: rule :: elig :: act :: nl :: old :: ot :: k :: rest =>
    match nl.toNat?, old.toNat?, ot.toNat?, k.toNat? with
    | some nl, some old, some ot, some k =>
      match dParseTable k rest [] with
      | some (tbl, "|" :: bl) =>
        let blame := bl.filterMap String.toNat?
        let isNew := if rule == "t" then isNewTimestamp tbl old ot else isNewAncestry tbl old
        let a := if act == "d" then Action.delete else if act == "i" then .insert else .modify
        (match v1Ranges isNew nl blame with
         | none => some "panic oob"
         | some rs => some (dShowOptRanges (analyzeV1 (elig == "1") a rs)))
      | _ => some "error parse"
    | _, _, _, _ => some "error parse"
  -- dfilter <path|->…   →  <compaction order> | <sorted by path>
  | "dfilter" :: ts =>
    let l : List (Option (String × Unit)) := ts.map (fun t => if t == "-" then none else some (t, ()))
    let f := filterValid l
    some (s!"{" ".intercalate (f.map (·.1))} | {" ".intercalate ((sortByPath f).map (·.1))}".trimAscii.toString)
  | ["dinit", c] => some (dShowRanges [initRange (decodeTok c)])
  | ["ddispatch", old, prec] =>
    some (match dispatch old (prec.toInt?.getD 0) with
      | .init => "init" | .v1 => "v1" | .v2 => "v2" | .v3 => "v3" | .invalid => "invalid")
  -- judge:diff <mode> <hasOld> <oldTerm> <newTerm> <nOld> <old…> <nNew> <new…> | <answer>
  | "judge:diff" :: mode :: ho :: ot :: nt :: rest =>
    match dTakeLines rest with
    | some (old, r1) =>
      match dTakeLines r1 with
      | some (new, "|" :: ans0) =>
        -- optional `| <0/1 per line>`: precision 1, line blamed to the old revision or an ancestor of it
        let ans := ans0.takeWhile (· != "|")
        let a6 := ((ans0.dropWhile (· != "|")).drop 1).map (· == "1")
        match dParseAnswer ans with
        | some a =>
          let (ho, ot, nt) := (ho == "1", ot == "1", nt == "1")
          let rs := diffReasons mode ho ot nt old new a
          if rs.isEmpty then some "ok"
          else if lastLineClass mode ho ot nt old new a then some "known D-C04-2"
          else if mode == "1" && a6.length == new.length && !a6Holds (if ho then old else []) new a6 then some "known D-C04-3"
          else some ("bad " ++ " ".intercalate rs)
        | none => some "error answer"
      | _ => some "error parse"
    | none => some "error parse"
  -- judge:exact <nOld> <old…> <nNew> <new…> | <answer> : reported lines = lines of new not in old
  | "judge:exact" :: rest =>
    match dTakeLines rest with
    | some (old, r1) =>
      match dTakeLines r1 with
      | some (new, "|" :: ans) =>
        match dParseAnswer ans with
        | some a =>
          let rs := a.getD []
          if reported rs new == new.filter (fun l => !old.contains l) && unreported rs new == new.filter (fun l => old.contains l)
          then some "ok"
          else
            -- a reported line that stands in the old file is a tracking point without a change (C09);
            -- a line of the new file that is absent from the old one and is not reported is a miss (C04)
            let over := (reported rs new).any (fun l => old.contains l)
            let miss := (unreported rs new).any (fun l => !old.contains l)
            some ("bad C17:reported-lines-differ-from-inserted-and-modified-lines" ++
              (if over then " C09:unchanged-line-reported" else "") ++ (if miss then " C04:changed-line-not-reported" else ""))
        | none => some "error answer"
      | _ => some "error parse"
    | none => some "error parse"
  | _ => none

end GoatSpec.Drv
