import GoatSpec.Proto
import GoatSpec.RuntimeSpec
import GoatSpec.Drv.Text
/-! driver handlers for the generated runtime (C07)

A request carries the whole scenario:

    rt:<q> <r0|r1> <b|c> <N> <k> (<name> <ids|->)×k | <ops…> | <query…>

* `r0|r1` race flag (irrelevant to the model: a `Track` call is one atomic step either way),
  `b|c` data type, `N` number of track ids, `k` components (`ids` = `1,5,7` or `-`);
* ops: `id` (one call `Track(id)`), `idxK` (K consecutive calls), `/` separates the call lists
  of concurrently running goroutines (the model runs them one after the other,
  `C07.atomic_interleave`);
* `rt:status` → the status array; `rt:track … | <order> <component>` → canonical `/track`
  answer; `rt:metrics … | <current component>` → canonical `/metrics` answer
  (`rt:metricsPreFix`: the pinned template's handler).
* `judge:rt:<q> … | <implementation's answer>` evaluates the property predicate of
  `RuntimeSpec.lean` on the implementation's answer. -/
namespace GoatSpec.Drv
open GoatSpec GoatSpec.Proto GoatSpec.Runtime

def rtParseIds (s : String) : Option (List Nat) :=
  if s == "-" then some [] else (s.splitOn ",").mapM String.toNat?

def rtParseComps : Nat → List String → Option (List Comp × List String)
  | 0, ts => some ([], ts)
  | k + 1, nm :: ids :: ts =>
    match rtParseIds ids, rtParseComps k ts with
    | some is, some (cs, rest) => some (⟨decodeTok nm, is⟩ :: cs, rest)
    | _, _ => none
  | _, _ => none

def rtParseOp (t : String) : Option (Int × Nat) :=
  match t.splitOn "x" with
  | [a] => a.toInt?.map (fun i => (i, 1))
  | [a, b] =>
    match a.toInt?, b.toNat? with
    | some i, some k => some (i, k)
    | _, _ => none
  | _ => none

structure RtReq where
  cfg : Cfg
  ops : List (Int × Nat)
  rest : List String      -- query tokens (and, for judge requests, `|` + the implementation's answer)

def rtParse (ts : List String) : Option RtReq :=
  match ts with
  | _race :: m :: n :: k :: rest =>
    let mode? : Option Mode := if m == "b" then some .bool else if m == "c" then some .count else none
    match mode?, n.toNat?, k.toNat? with
    | some mode, some n, some k =>
      match rtParseComps k rest with
      | some (cs, "|" :: r) =>
        let (opToks, q) := splitBar r
        match (opToks.filter (· != "/")).mapM rtParseOp with
        | some ops => some ⟨⟨mode, n, cs⟩, ops, q⟩
        | none => none
      | _ => none
    | _, _, _ => none
  | _ => none

def rtFmtItems (l : List Runtime.Item) : String :=
  if l.isEmpty then "-" else ",".intercalate (l.map (fun it => s!"{it.id}:{it.count}"))

def rtFmtTrack : TrackResp → String
  | .invalid => "200 invalid"
  | .ok rs => s!"200 ok h1 {rs.length}" ++ String.join (rs.map (fun r =>
      s!" {r.id} {encodeTok r.name} {r.total} {r.covered} {r.rate} {rtFmtItems r.items}"))

def rtIndCode : Ind → String
  | .total => "T"
  | .covered => "C"
  | .ratio => "R"

def rtFmtMetrics : MetricsResp → String
  | .invalid => "invalid"
  | .ok rows => "ok h1" ++ String.join (rows.map (fun r => s!" {rtIndCode r.ind} {encodeTok r.name} {r.value}"))
  | .panic (.oob i l) w => s!"panic oob {i} {l} {w}"
  | .panic .div0 w => s!"panic div0 {w}"

def rtParseItem (p : String) : Option Runtime.Item :=
  match p.splitOn ":" with
  | [a, b] =>
    match a.toNat?, b.toNat? with
    | some i, some c => some (Runtime.Item.mk i c)
    | _, _ => none
  | _ => none

def rtParseItems (s : String) : Option (List Runtime.Item) :=
  if s == "-" then some [] else (s.splitOn ",").mapM rtParseItem

def rtParseResults : List String → Option (List CompResult)
  | [] => some []
  | cid :: nm :: t :: c :: r :: its :: rest =>
    match cid.toNat?, t.toNat?, c.toNat?, r.toNat?, rtParseItems its, rtParseResults rest with
    | some cid, some t, some c, some r, some its, some more => some (⟨cid, decodeTok nm, t, c, r, its⟩ :: more)
    | _, _, _, _, _, _ => none
  | _ => none

/-- the implementation's canonical `/track` answer; `none` = anything else (a panic, a failed
    Go-side header/hash check `h0`, an undecodable body) -/
def rtParseTrack (ts : List String) : Option TrackResp :=
  match ts with
  | [_code, "invalid"] => some .invalid
  | _code :: "ok" :: "h1" :: n :: rest =>
    match n.toNat?, rtParseResults rest with
    | some n, some rs => if rs.length == n then some (.ok rs) else none
    | _, _ => none
  | _ => none

def rtParseRows : List String → Option (List Row)
  | [] => some []
  | i :: nm :: v :: rest =>
    let ind? : Option Ind := if i == "T" then some .total else if i == "C" then some .covered
      else if i == "R" then some .ratio else none
    match ind?, v.toNat?, rtParseRows rest with
    | some ind, some v, some more => some (⟨ind, decodeTok nm, v⟩ :: more)
    | _, _, _ => none
  | _ => none

def rtParseMetrics (ts : List String) : Option MetricsResp :=
  match ts with
  | ["invalid"] => some .invalid
  | "ok" :: "h1" :: rest => (rtParseRows rest).map .ok
  | "panic" :: "oob" :: i :: l :: w :: [] =>
    match i.toNat?, l.toNat?, w.toNat? with
    | some i, some l, some w => some (.panic (.oob i l) w)
    | _, _, _ => none
  | "panic" :: "div0" :: w :: [] => w.toNat?.map (.panic .div0)
  | _ => none

def rtBool (b : Bool) : String := if b then "ok" else "bad"

def handleRuntime (toks : List String) : Option String :=
  match toks with
  | "rt:status" :: ts =>
    match rtParse ts with
    | some q => some (natList (runN q.cfg.mode (initStatus q.cfg.n) q.ops))
    | none => some "error bad-request"
  | "rt:track" :: ts =>
    match rtParse ts with
    | some ⟨cfg, ops, [o, c]⟩ =>
      some (rtFmtTrack (trackHandler cfg (runN cfg.mode (initStatus cfg.n) ops) (decodeTok o) (decodeTok c)))
    | _ => some "error bad-request"
  | "rt:metrics" :: ts =>
    match rtParse ts with
    | some ⟨cfg, ops, [cur]⟩ =>
      some (rtFmtMetrics (metrics cfg (runN cfg.mode (initStatus cfg.n) ops) (decodeTok cur)))
    | _ => some "error bad-request"
  | "rt:metricsPreFix" :: ts =>
    match rtParse ts with
    | some ⟨cfg, ops, [cur]⟩ =>
      some (rtFmtMetrics (metricsPreFix cfg (runN cfg.mode (initStatus cfg.n) ops) (decodeTok cur)))
    | _ => some "error bad-request"
  | "judge:rt:status" :: ts =>
    match rtParse ts with
    | some ⟨cfg, ops, impl⟩ =>
      if !cfg.wf then some "skip" else
      match impl.mapM String.toNat? with
      | some st => some (rtBool (statusOK cfg (expStatusN cfg ops) st))
      | none => some "bad"
    | none => some "error bad-request"
  | "judge:rt:track" :: ts =>
    match rtParse ts with
    | some ⟨cfg, ops, o :: c :: "|" :: impl⟩ =>
      if !cfg.wf then some "skip" else
      match rtParseTrack impl with
      | some resp => some (rtBool (trackOK cfg (expStatusN cfg ops) (decodeTok o) (decodeTok c) resp))
      | none => some "bad unparsable-answer"
    | _ => some "error bad-request"
  | "judge:rt:metrics" :: ts =>
    match rtParse ts with
    | some ⟨cfg, ops, cur :: "|" :: impl⟩ =>
      if !cfg.wf then some "skip" else
      match rtParseMetrics impl with
      | some resp =>
        let why := match resp with
          | .panic (.oob _ _) _ => " handler-panicked:index-out-of-range"
          | .panic .div0 _ => " handler-panicked:integer-divide-by-zero"
          | _ => " wrong-answer"
        some (if metricsOK cfg (expStatusN cfg ops) (decodeTok cur) resp then "ok" else "bad" ++ why)
      | none => some "bad unparsable-answer"
    | _ => some "error bad-request"
  -- race:true variants built with the race detector: the model has no data races to report
  -- (RuntimeSpec treats Track as atomic per id), so the expected answer is constant
  | "rt:norace" :: _ => some "no-race"
  | "judge:rt:norace" :: impl =>
    some (if impl == ["no-race"] then "ok" else "bad data-race-reported-by-the-race-detector")
  | _ => none

end GoatSpec.Drv
