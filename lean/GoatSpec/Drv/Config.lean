import GoatSpec.Proto
import GoatSpec.Config
/-! driver handlers for the configuration family (C16)

    env    := <numCPU> <cwd base> <short hash of the effective new branch | !>
    flags  := 18 tokens in the order of `flagOrder`; `-` = flag not given, `=<tok>` = given value
    cfg:init <env> <exists 0|1> <force 0|1> <flags>      →  ok <file lines…> | reject <reason>
    cfg:load <env> <file lines…>                         →  ok <config> | reject <reason>
    judge:cfg-roundtrip <env> <exists> <force> <flags> | <impl: ok <config> | reject r | init-reject r>
    judge:cfg-invalid | <impl answer>                    →  ok iff the implementation rejected -/
namespace GoatSpec.Drv
open GoatSpec GoatSpec.Proto GoatSpec.Config

def flagOrder : List String :=
  ["old", "new", "app-name", "app-version", "granularity", "diff-precision", "threads", "race",
   "goat-package-name", "goat-package-alias", "goat-package-path", "ignores", "main-entries",
   "printer-config-mode", "printer-config-tabwidth", "printer-config-indent", "data-type", "skip-nested-modules"]

def cfgTokens (c : Cfg) : List String :=
  let lst (l : List Str) : List String := toString l.length :: l.map encodeTok
  [encodeTok c.appName, encodeTok c.appVersion, encodeTok c.oldBranch, encodeTok c.newBranch]
  ++ lst c.ignores
  ++ [encodeTok c.pkgName, encodeTok c.pkgAlias, encodeTok c.pkgPath, encodeTok c.granularity,
      String.ofList (showInt c.diffPrecision), String.ofList (showInt c.threads), b2s c.race]
  ++ lst c.mainEntries ++ lst c.printerModes
  ++ [String.ofList (showInt c.tabwidth), String.ofList (showInt c.indent), encodeTok c.dataType,
      b2s c.verbose, b2s c.skipNested]

def optTok (t : String) : Option (Option Str) :=
  match t.toList with
  | ['-'] => some none
  | '=' :: r => some (some (decodeTok (String.ofList r)))
  | _ => none

def optInt (t : String) : Option (Option Int) :=
  match optTok t with
  | some none => some none
  | some (some s) => (parseInt s).map some
  | none => none

def optBool' (t : String) : Option (Option Bool) :=
  match optTok t with
  | some none => some none
  | some (some s) => (parseBool s).map some
  | none => none

def parseEnv (cpu base hash : String) : Option Env :=
  match parseInt cpu.toList with
  | some n => some { numCPU := n, cwdBase := decodeTok base,
                     shortHash := fun _ => if hash = "!" then none else some (decodeTok hash) }
  | none => none

def parseFlags (force : String) (ts : List String) : Option Flags :=
  match ts with
  | [a, b, c, d, e, f, g, h, i, j, k, l, m, n, o, p, q, r] =>
    match optTok a, optTok b, optTok c, optTok d, optTok e, optInt f, optInt g, optBool' h, optTok i with
    | some a, some b, some c, some d, some e, some f, some g, some h, some i =>
      match optTok j, optTok k, optTok l, optTok m, optTok n, optInt o, optInt p, optTok q, optBool' r with
      | some j, some k, some l, some m, some n, some o, some p, some q, some r =>
        some { old := a, new := b, appName := c, appVersion := d, granularity := e, diffPrecision := f,
               threads := g, race := h, pkgName := i, pkgAlias := j, pkgPath := k, ignores := l,
               mainEntries := m, printerMode := n, tabwidth := o, indent := p, dataType := q,
               skipNested := r, force := force == "1" }
      | _, _, _, _, _, _, _, _, _ => none
    | _, _, _, _, _, _, _, _, _ => none
  | _ => none

def cfgAnswer (r : Except Rej Cfg) : String :=
  match r with
  | .ok c => "ok " ++ " ".intercalate (cfgTokens c)
  | .error e => "reject " ++ e.name

def handleConfig (toks : List String) : Option String :=
  match toks with
  | "cfg:init" :: cpu :: base :: hash :: ex :: force :: fl =>
    match parseEnv cpu base hash, parseFlags force fl with
    | some env, some f =>
      match initPlan env (ex == "1") f with
      | .ok text => some ("ok " ++ encodeLines (splitNL text))
      | .error e => some ("reject " ++ e.name)
    | _, _ => some "error bad-request"
  | "cfg:load" :: cpu :: base :: hash :: ls =>
    match parseEnv cpu base hash with
    | some env => some (cfgAnswer (load env (joinWith '\n' (ls.map decodeTok))))
    | none => some "error bad-request"
  | "judge:cfg-roundtrip" :: cpu :: base :: hash :: ex :: force :: rest =>
    let (fl, impl) := (rest.takeWhile (· != "|"), (rest.dropWhile (· != "|")).drop 1)
    match parseEnv cpu base hash, parseFlags force fl with
    | some env, some f =>
      if ex == "1" && !f.force then
        some (if impl = ["init-reject", Rej.fileExists.name] then "ok" else "bad expected-init-reject-exists")
      else match validate env (preprocess f) with
        | .error e => some (if impl = ["init-reject", e.name] then "ok" else "bad expected-init-reject-" ++ e.name)
        | .ok c =>
          if safeCfg c then
            some (if impl = "ok" :: cfgTokens c then "ok" else "bad loaded-config-differs-from-given-values")
          else some "skip"
    | _, _ => some "error bad-request"
  | "judge:cfg-invalid" :: "|" :: impl =>
    some (match impl with | "reject" :: _ => "ok" | _ => "bad invalid-value-accepted")
  | _ => none

end GoatSpec.Drv
