import GoatSpec.Basic
/-! # GoatSpec.Splice — `IncrementalTrack.doInsert` (pkg/tracking/increment.go:109), loop-faithful.

* `scan`/`shifts`: the hand-maintained `deltaArray` that moves the single-line insert
  positions down by the lines inserted above them (first loop, early exit, pending slot,
  `-1` slots, prefix sums);
* `pass1`: the first text pass (a block before each multi-line position);
* `pass2`: the second text pass (split a line at a column and put a block in between). -/
namespace GoatSpec

/-- The first loop of doInsert restricted to its delta bookkeeping. `i`: 0-based source index,
    `ms`: remaining multi-line insert lines, `ss`: remaining single-line insert lines (head =
    the pending `deltaLine+1`), `delta`: running counter. Result: (stored deltaArray prefix,
    delta at loop exit, singles not reached). -/
def scan (B : Nat) : Nat → Nat → List Nat → List Nat → Nat → (List Nat × Nat × List Nat)
  | 0, _, _, ss, delta => ([], delta, ss)                 -- i reached len(sources)
  | _+1, _, [], ss, delta => ([], delta, ss)              -- posIdx reached len(insertedPositions)
  | fuel+1, i, m :: ms, ss, delta =>
      let delta1 := if i = m - 1 then delta + B else delta
      let ms1 := if i = m - 1 then ms else m :: ms
      match ss with
      | s :: ss' =>
          if i = s - 1 then
            let r := scan B fuel (i+1) ms1 ss' 0
            (delta1 :: r.1, r.2.1, r.2.2)
          else scan B fuel (i+1) ms1 (s :: ss') delta1
      | [] => scan B fuel (i+1) ms1 [] delta1

/-- prefix sums from `acc` -/
def pre (acc : Nat) : List Nat → List Nat
  | [] => []
  | x :: xs => (acc + x) :: pre (acc + x) xs

/-- the deltaArray after increment.go:160-171: stored slots, the pending slot gets the exit
    delta, untouched slots (-1) count as 0 in the prefix sums. -/
def arrOf (r : List Nat × Nat × List Nat) : List Nat :=
  r.1 ++ (match r.2.2 with | [] => [] | _ :: t => r.2.1 :: t.map (fun _ => 0))

/-- per single-line position (in sorted order) the number of lines it is moved down -/
def shifts (B n : Nat) (ms ss : List Nat) : List Nat := pre 0 (arrOf (scan B n 0 ms ss 0))

/-- number of multi positions ≤ s -/
def cntLe (ms : List Nat) (s : Nat) : Nat := (ms.filter (· ≤ s)).length

/-- block height written per insert position: `len(trackStmtPlaceHolders)` -/
def blockHeight : Nat := 4

def shiftSingles (n : Nat) (multi : List Nat) (singles : List (Nat × Nat)) : List (Nat × Nat) :=
  let sh := shifts blockHeight n multi (singles.map (·.1))
  (singles.zip sh).map (fun (p : (Nat × Nat) × Nat) => (p.1.1 + p.2, p.1.2))

/-! ## text passes (over any line type) -/
section
variable {α : Type}

/-- first pass at line level: `i` is the 0-based source index, positions are 1-based lines,
    sorted; exits early when positions are exhausted (`strings.Join(sources[i:], "\n")`). -/
def pass1 (block : List α) : Nat → List α → List Nat → List α
  | _, [], _ => []
  | _, src, [] => src
  | i, s :: rest, p :: ps =>
      if i = p - 1 then block ++ s :: pass1 block (i+1) rest ps
      else s :: pass1 block (i+1) rest (p :: ps)

/-- specification: a block before every line whose 1-based number is in `ps`. -/
def spec1 (block : List α) : Nat → List α → List Nat → List α
  | _, [], _ => []
  | i, s :: rest, ps => (if (i+1) ∈ ps then block else []) ++ s :: spec1 block (i+1) rest ps
end

/-- second pass on character lines: at the (shifted) line of each single position split at
    `col-1`; at most one position per output line is honoured (D-C01-2). `none` = slice bounds
    panic (`src[:column]` with column > len). -/
def pass2 (block : List Line) : Nat → List Line → List (Nat × Nat) → Option (List Line)
  | _, [], _ => some []
  | _, src, [] => some src
  | i, s :: rest, (l, c) :: ps =>
      if i = l - 1 then
        if c - 1 ≤ s.length ∧ 1 ≤ c then
          (pass2 block (i+1) rest ps).map (fun r => s.take (c-1) :: (block ++ s.drop (c-1) :: r))
        else none
      else (pass2 block (i+1) rest ((l, c) :: ps)).map (fun r => s :: r)

/-- pass 2 on line *lengths*: number of positions honoured; `none` = slice-bounds panic -/
def pass2Count : Nat → List Nat → List (Nat × Nat) → Option Nat
  | _, [], _ => some 0
  | _, _ :: _, [] => some 0
  | i, s :: rest, (l, c) :: ps =>
      if i = l - 1 then
        if c - 1 ≤ s then (pass2Count (i+1) rest ps).map (· + 1) else none
      else pass2Count (i+1) rest ((l, c) :: ps)

/-- number of tracking blocks `doInsert` writes for sorted unique `multi` and (unshifted)
    `singles` on a source whose lines have byte lengths `lens`; `none` = panic in pass 2 -/
def writtenBlocks (blockLens : List Nat) (lens : List Nat) (multi : List Nat) (singles : List (Nat × Nat)) : Option Nat :=
  let w1 := (multi.filter (· ≤ lens.length)).length
  if singles.isEmpty then some w1
  else
    let l1 := pass1 blockLens 0 lens multi
    -- when the first loop consumed every source line the buffer ends with an extra newline
    let l1 := if multi.any (· ≥ lens.length) then l1 ++ [0] else l1
    (pass2Count 0 l1 (shiftSingles lens.length multi singles)).map (· + w1)

end GoatSpec
