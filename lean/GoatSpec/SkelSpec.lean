import GoatSpec.Skeleton
/-! # GoatSpec.SkelSpec — analyses of the effect skeleton that `vh skeleton` translates from
    /repo's Go source on every run (`GoatSpec/Skeleton.lean`, generated).

The skeleton keeps, per function and in source order, the calls of project functions, the
external steps that can fail (callee's last result is `error`, or a new error value is made),
the write-boundary hooks, the file-system mutations, the uses of package-level variables and the
loops. Branches are flattened (both arms in source order) and a loop body counts twice, so
everything computed here over-approximates "may happen after". Per function a *summary* is
kept in a table that is a fixed point of the transfer function over all bodies (`isFixedPoint`):
* `w`    — may mutate the file system (callees included),
* `all`  — set of fallible steps it may execute (bit mask over `extSites`),
* `late` — set of fallible steps that may execute after a mutation made inside the function,
* `refs` — set of package-level variables it may touch (bit mask over `refNames`).
The property theorems (`Properties/C12`, `C15`, `C06`, `C10`, `C08`) evaluate these by `decide`. -/
namespace GoatSpec.SkelSpec
open GoatSpec.Skeleton

/-- scan state inside one body -/
structure St where
  written : Bool := false
  all : Nat := 0
  late : Nat := 0
  refs : Nat := 0

def bit (i : Nat) : Nat := 1 <<< i

def callSum (tbl : List Sum) (s : St) (f : Nat) : St :=
  let c := tbl.getD f {}
  { written := s.written || c.w
    all := s.all ||| c.all
    late := s.late ||| (if s.written then c.all else c.late)
    refs := s.refs ||| c.refs }

mutual
def stepSk (tbl : List Sum) (s : St) : Sk → St
  | .call f => callSum tbl s f
  | .icall fs => fs.foldl (callSum tbl) s
  | .ext k => { s with all := s.all ||| bit k, late := if s.written then s.late ||| bit k else s.late }
  | .hook _ => s
  | .write _ => { s with written := true }
  | .ref v => { s with refs := s.refs ||| bit v }
  | .loop body => stepL tbl (stepL tbl s body) body
  | .spawn body => stepL tbl s body
def stepL (tbl : List Sum) (s : St) : List Sk → St
  | [] => s
  | x :: r => stepL tbl (stepSk tbl s x) r
end

def sumOf (tbl : List Sum) (body : List Sk) : Sum :=
  let s := stepL tbl {} body
  ⟨s.written, s.all, s.late, s.refs⟩

def round (tbl : List Sum) : List Sum := bodies.map (sumOf tbl)

def iter : Nat → List Sum → List Sum
  | 0, t => t
  | n+1, t => iter n (round t)

/-- The summary table. The translator computes it (same transfer function, in Go) and emits it
    as `Skeleton.tableHint`; nothing is taken on trust: `isFixedPoint` re-runs one round of the
    Lean transfer function over it in the kernel. Every well-formed fixed point of the (monotone)
    transfer function lies above each finite unrolling `iter n ⊥` (`Proofs/Skel.iter_le_fixed`,
    instantiated for this table as `C12.skeleton_table_sound`), and all
    facts drawn from the table are upper bounds ("at most these steps / variables / no
    unhooked mutation"), so a fixed point is all that soundness needs. -/
def table : List Sum := tableHint

def isFixedPoint : Bool := round table == table && table.length == bodies.length && fnNames.length == bodies.length

/-- every entry has `late ⊆ all` -/
def tableWf : Bool := table.all (fun s => s.late &&& s.all == s.late)

def fnIndex (name : String) : Option Nat := fnNames.idxOf? name

def summary (name : String) : Sum :=
  match fnIndex name with
  | some i => table.getD i {}
  | none => ⟨true, 0, 0, 0⟩

def known (name : String) : Bool := (fnIndex name).isSome

/-- decode a bit mask over a name table -/
def decode {α : Type} (tbl : List α) (mask : Nat) : List α :=
  (List.range tbl.length).filterMap (fun i => if mask.testBit i then tbl[i]? else none)

/-- fallible steps that may run after the first file-system mutation of `entry` -/
def late (entry : String) : List (String × String) := decode extSites (summary entry).late

def mutates (entry : String) : Bool := (summary entry).w

/-- package-level variables of the project that `entry` may touch, callees included -/
def refsOf (entry : String) : List String := decode refNames (summary entry).refs

/-! ## hooks: every mutation is directly preceded by a write-boundary hook -/

def effectFree (f : Nat) : Bool :=
  let c := table.getD f {}
  !c.w && c.all == 0

mutual
/-- `armed`: a hook was seen and nothing but effect-free project calls and variable uses since -/
def unhookedSk (armed : Bool) : Sk → Bool × List Nat
  | .hook _ => (true, [])
  | .write p => (false, if armed then [] else [p])
  | .call f => (armed && effectFree f, [])
  | .ref _ => (armed, [])
  | .icall _ => (false, [])
  | .ext _ => (false, [])
  | .loop body => (false, (unhookedL false body).2)
  | .spawn body => (false, (unhookedL false body).2)
def unhookedL (armed : Bool) : List Sk → Bool × List Nat
  | [] => (armed, [])
  | s :: r =>
    let a := unhookedSk armed s
    let b := unhookedL a.1 r
    (b.1, a.2 ++ b.2)
end

/-- mutations without their hook: (function, primitive), over every function of the project -/
def unhooked : List (String × String) :=
  (fnNames.zip bodies).flatMap (fun p => ((unhookedL false p.2).2).map (fun i => (p.1, prims.getD i "?")))

mutual
def directWritesSk : Sk → List Nat
  | .write p => [p]
  | .loop body => directWritesL body
  | .spawn body => directWritesL body
  | _ => []
def directWritesL : List Sk → List Nat
  | [] => []
  | s :: r => directWritesSk s ++ directWritesL r
end

/-- the functions that contain a mutation themselves, with the primitives they use -/
def writers : List (String × List String) :=
  (fnNames.zip bodies).filterMap (fun p =>
    let w := directWritesL p.2
    if w.isEmpty then none else some (p.1, w.map (fun i => prims.getD i "?")))

/-! ## source order inside one function -/

mutual
def refOrderSk : Sk → List Nat
  | .ref v => [v]
  | .loop body => refOrderL body
  | .spawn body => refOrderL body
  | _ => []
def refOrderL : List Sk → List Nat
  | [] => []
  | s :: r => refOrderSk s ++ refOrderL r
end

/-- package-level variables mentioned by the body of `f` itself, in source order -/
def refOrder (f : String) : List String :=
  match fnIndex f with
  | none => ["<unknown project function>"]
  | some i => (refOrderL (bodies.getD i [])).map (fun v => refNames.getD v "?")

mutual
def callOrderSk : Sk → List Nat
  | .call f => [f]
  | .loop body => callOrderL body
  | .spawn body => callOrderL body
  | _ => []
def callOrderL : List Sk → List Nat
  | [] => []
  | s :: r => callOrderSk s ++ callOrderL r
end

/-- project functions called by the body of `f` itself, in source order -/
def callOrder (f : String) : List String :=
  match fnIndex f with
  | none => ["<unknown project function>"]
  | some i => (callOrderL (bodies.getD i [])).map (fun g => fnNames.getD g "?")

/-! ## goroutines -/

mutual
/-- the bodies of the `go` statements of a skeleton -/
def spawnsSk : Sk → List (List Sk)
  | .spawn body => body :: spawnsL body
  | .loop body => spawnsL body
  | _ => []
def spawnsL : List Sk → List (List Sk)
  | [] => []
  | s :: r => spawnsSk s ++ spawnsL r
end

/-- the functions that start goroutines -/
def spawners : List String :=
  (fnNames.zip bodies).filterMap (fun p => if (spawnsL p.2).isEmpty then none else some p.1)

/-- package-level variables the goroutines started by `f` may touch (callees included) -/
def spawnRefs (f : String) : List String :=
  match fnIndex f with
  | none => ["<unknown project function>"]
  | some i => decode refNames ((spawnsL (bodies.getD i [])).foldl (fun m b => m ||| (stepL table {} b).refs) 0)

end GoatSpec.SkelSpec
