#!/usr/bin/env python3
"""tools_store_seeded.py [--prefix /tmp/m3_out_] [--offset 3] [ids…] — copies confirmed seeded changes from /tmp/mut_out_<id>/ into
/verif/seeded/<id>-<i>/ (patch.diff, demo/, meta.json). meta.json = the author's description +
my confirmation + every trial of the checks against it recorded in seeded/LOG.jsonl (in order, so
a change missed first and caught after a check was strengthened shows both)."""
import sys, os, json, shutil, glob

ROOT = os.path.dirname(os.path.abspath(__file__))
LOG = os.path.join(ROOT, "seeded", "LOG.jsonl")


def trials():
    by = {}
    for l in open(LOG):
        l = l.strip()
        if not l:
            continue
        r = json.loads(l)
        by.setdefault(r.get("mutant"), []).append(r)
    return by


def main():
    args = sys.argv[1:]
    prefix, offset = "/tmp/mut_out_", 0
    if "--prefix" in args:
        i = args.index("--prefix"); prefix = args[i + 1]; del args[i:i + 2]
    if "--offset" in args:
        i = args.index("--offset"); offset = int(args[i + 1]); del args[i:i + 2]
    ids = args or sorted({os.path.basename(d)[len(os.path.basename(prefix)):] for d in glob.glob(prefix + "C*")})
    by = trials()
    for pid in ids:
        src = f"{prefix}{pid}"
        for i in (1, 2, 3):
            patch = os.path.join(src, f"patch_{i}.diff")
            if not os.path.exists(patch):
                continue
            ts = by.get(f"{src}#{i}", [])
            if not ts:
                print(pid, i, "no trial recorded; skipped")
                continue
            dst = os.path.join(ROOT, "seeded", f"{pid}-{i + offset}")
            shutil.rmtree(dst, ignore_errors=True)
            os.makedirs(dst)
            shutil.copy(patch, os.path.join(dst, "patch.diff"))
            demo = os.path.join(src, f"demo_{i}")
            if os.path.isdir(demo):
                shutil.copytree(demo, os.path.join(dst, "demo"))
            meta = {}
            mp = os.path.join(src, f"meta_{i}.json")
            if os.path.exists(mp):
                try:
                    meta = json.load(open(mp))
                except Exception:
                    meta = {"raw": open(mp).read()}
            conf = next((t for t in reversed(ts) if "builds" in t), ts[-1])
            meta["confirmed_by_me"] = dict(applies=conf.get("applies"), builds=conf.get("builds"), existing_tests_pass=conf.get("tests_pass"),
                                           demo_fails_with_change=conf.get("demo_fails_with_change"), demo_passes_without=conf.get("demo_passes_without"),
                                           confirmed=conf.get("confirmed"), error=conf.get("error"),
                                           how=f"python3 tools_mutant.py {pid} {src} {i} (scratch worktree of /repo HEAD; then git apply to the (trial) repo, ./check, git checkout -- .)")
            meta["trials"] = []
            for t in ts:
                if "checks" not in t:
                    continue
                meta["trials"].append({c: dict(exit=v["exit"], violation_lines=v["violations"], first_detail=v["detail"][:2], wall_s=v["wall_s"]) for c, v in t["checks"].items()})
            last = next((t for t in reversed(ts) if "checks" in t), None)
            meta["caught_by"] = (last or {}).get("caught_by", [])
            meta["caught_in_any_trial_by"] = sorted({c for t in ts for c in (t.get("caught_by") or [])})
            json.dump(meta, open(os.path.join(dst, "meta.json"), "w"), indent=1)
            print(pid, i, "stored; confirmed:", conf.get("confirmed"), "caught_by:", meta["caught_by"], "trials:", len(meta["trials"]))


if __name__ == "__main__":
    main()
