NOTES = ("Every check: rebuilds harness+goat from /repo's working tree with -tags verif, regenerates Extracted.lean, "
         "lake-builds the property's theorem module (axiom audit), runs correspondence streams (implementation vs Lean model, "
         "and the Lean property predicate judged on every implementation answer) and end-to-end oracles. See DESIGN.md.")

CLAIMS = {
 "C06": dict(
   text="Theorems (Lean 4, all arrangements/texts, by induction): clean_wf (for every well-formed arrangement of user lines, marker blocks of any kind and insert markers, clean keeps exactly the non-blank user lines in order, leaves no marker line, changed iff an artefact was present), clean_sublist, clean_idempotent and clean_noop for every text whatsoever, plus a witness that unterminated markers fall outside. The model is the line-level semantics of the five marker regexps in the executor's order; it is tied to the code by exhaustive differential runs of the real regexps (all sequences over a 17-line raw alphabet up to length 3/4, all token arrangements up to 5/7) and by judging the Lean predicate on every implementation answer.",
   design_ref="DESIGN.md §6 C06, §3 Text model",
   note="Trusted: Lean kernel; harness; Go regexp engine (modelled at line level, tied exhaustively on small arrangements); go/parser+printer and astutil import removal are below the model (syntax-tree equality after clean is an end-to-end oracle, not a theorem).",
   technique="Lean 4 proof by induction over item lists / line lists + differential correspondence against the real regexps",
 ),
 "C07": dict(
   text="Theorems (Lean 4, all call sequences / component structures / query strings / interleavings, by induction, nothing bounded): status_counts (after any Track sequence an in-range id shows min(1,#calls) in bool mode and #calls mod 2^32 in count mode, = #calls below 2^32; other slots 0; out-of-range calls change nothing: track_ignores_out_of_range, status_ignores_out_of_range), track_report / track_report_component (the /track answer satisfies the property predicate: invalid component list refused, otherwise per requested component exactly its ids as a multiset with those counts, total=|ids|, covered=#(count>0), rate=covered*100/total or 0, items ordered by the requested key, invalid order = order 0), metrics_total (the fixed /metrics never panics, refuses only an unknown current component, prints the totals of /track for every target component), atomic_interleave (any interleaving of atomic Track steps of any number of callers ends in the state of the sequential concatenation, hence exact counts). Witness theorems metricsPreFix_div_zero / metricsPreFix_index_oob document the two panics of the pinned template (fixed by fix_c07.diff). The model is loop-faithful to the rendered template and tied to it by compiling the real Values.Render output for 4 variants x random component structures and comparing every status dump, /track and /metrics answer (panics included), with the Lean predicate judged on every implementation answer.",
   design_ref="DESIGN.md §6 C07, Appendix A.5, §7 D-C07-1/2",
   note="Trusted: Lean kernel; harness (generators, tie canonicalisation, Go-side md5/name/label oracle); Go compiler and runtime, sync/atomic, net/http, encoding/json (A7). Without race only sequential callers are claimed. The md5 version string and label texts are checked Go-side, not modelled.",
   technique="Lean 4 proof by induction over call sequences / lists / permutations + differential correspondence against the compiled rendered runtime",
 ),
}

NOT_APPLICABLE = {}
