NOTES = ("Every check: rebuilds harness+goat from /repo's working tree with -tags verif, regenerates Extracted.lean, "
         "lake-builds the property's theorem module (axiom audit), runs correspondence streams (implementation vs Lean model, "
         "and the Lean property predicate judged on every implementation answer) and end-to-end oracles. See DESIGN.md.")

CLAIMS = {
 "C06": dict(
   text="Theorems (Lean 4, all arrangements/texts, by induction): clean_wf (for every well-formed arrangement of user lines, marker blocks of any kind and insert markers, clean keeps exactly the non-blank user lines in order, leaves no marker line, changed iff an artefact was present), clean_sublist, clean_idempotent and clean_noop for every text whatsoever, plus a witness that unterminated markers fall outside. The model is the line-level semantics of the five marker regexps in the executor's order; it is tied to the code by exhaustive differential runs of the real regexps (all sequences over a 17-line raw alphabet up to length 3/4, all token arrangements up to 5/7) and by judging the Lean predicate on every implementation answer.",
   design_ref="DESIGN.md §6 C06, §3 Text model",
   note="Trusted: Lean kernel; harness; Go regexp engine (modelled at line level, tied exhaustively on small arrangements); go/parser+printer and astutil import removal are below the model (syntax-tree equality after clean is an end-to-end oracle, not a theorem).",
   technique="Lean 4 proof by induction over item lists / line lists + differential correspondence against the real regexps",
 ),
}

NOT_APPLICABLE = {}
