namespace Splice
variable {α : Type}

/-- loop-faithful first pass of doInsert at line level: `i` is the 0-based source index,
    positions are 1-based lines, sorted; exits early when positions are exhausted
    (the Go code then writes `strings.Join(sources[i:], "\n")`). -/
def pass1 (block : List α) : Nat → List α → List Nat → List α
  | _, [], _ => []
  | _, src, [] => src
  | i, s :: rest, p :: ps =>
      if i = p - 1 then block ++ s :: pass1 block (i+1) rest ps
      else s :: pass1 block (i+1) rest (p :: ps)

/-- specification: a block before every line whose 1-based number is in `ps`. -/
def spec (block : List α) : Nat → List α → List Nat → List α
  | _, [], _ => []
  | i, s :: rest, ps => (if (i+1) ∈ ps then block else []) ++ s :: spec block (i+1) rest ps

/-- strictly increasing, all ≥ lo -/
def Incr : Nat → List Nat → Prop
  | _, [] => True
  | lo, p :: ps => lo ≤ p ∧ Incr (p+1) ps

theorem Incr.mono {lo lo' : Nat} {ps : List Nat} (h : Incr lo ps) (hl : lo' ≤ lo) : Incr lo' ps := by
  cases ps with
  | nil => trivial
  | cons p ps => exact ⟨Nat.le_trans hl h.1, h.2⟩

theorem Incr.not_mem {lo : Nat} {ps : List Nat} (h : Incr lo ps) {x : Nat} (hx : x < lo) : x ∉ ps := by
  induction ps generalizing lo with
  | nil => simp
  | cons p ps ih =>
    intro hm
    rcases List.mem_cons.mp hm with rfl | hm
    · exact absurd h.1 (by omega)
    · exact ih (lo := p+1) h.2 (by have := h.1; omega) hm

theorem spec_nil (block : List α) (i : Nat) (src : List α) : spec block i src [] = src := by
  induction src generalizing i with
  | nil => rfl
  | cons s rest ih => simp [spec, ih]

/-- a position below every remaining line number is irrelevant -/
theorem spec_drop_small (block : List α) (i x : Nat) (src : List α) (ps : List Nat) (hx : x < i + 1) :
    spec block i src (x :: ps) = spec block i src ps := by
  induction src generalizing i with
  | nil => rfl
  | cons s rest ih =>
    have hne : i + 1 ≠ x := by omega
    simp only [spec, List.mem_cons, hne, false_or]
    rw [ih (i+1) (by omega)]

theorem pass1_eq_spec (block : List α) (i : Nat) (src : List α) (ps : List Nat)
    (h : Incr (i+1) ps) : pass1 block i src ps = spec block i src ps := by
  induction src generalizing i ps with
  | nil => cases ps <;> rfl
  | cons s rest ih =>
    cases ps with
    | nil => simp [pass1, spec_nil]
    | cons p ps =>
      obtain ⟨hp, hps⟩ := h
      by_cases hi : i = p - 1
      · have hpe : p = i + 1 := by omega
        subst hpe
        simp only [pass1, spec, Nat.add_sub_cancel, if_true, List.mem_cons, true_or]
        rw [ih (i+1) ps hps, spec_drop_small block (i+1) (i+1) rest ps (by omega)]
      · have hlt : i + 1 < p := by omega
        have hnot : (i+1) ∉ (p :: ps) := by
          intro hm
          rcases List.mem_cons.mp hm with h1 | h1
          · omega
          · exact (hps.not_mem (x := i+1) (by omega)) h1
        simp only [pass1, if_neg hi, spec, if_neg hnot, List.nil_append]
        rw [ih (i+1) (p :: ps) ⟨by omega, hps⟩]

/-- additivity: removing the block lines gives the source back (block lines are recognisable, source lines are not block lines) -/
theorem spec_filter (block : List α) (isBlock : α → Bool) (hb : ∀ b ∈ block, isBlock b = true)
    (i : Nat) (src : List α) (ps : List Nat) (hs : ∀ s ∈ src, isBlock s = false) :
    (spec block i src ps).filter (fun x => !isBlock x) = src := by
  induction src generalizing i with
  | nil => rfl
  | cons s rest ih =>
    have h1 : isBlock s = false := hs s (by simp)
    have hrest := ih (i+1) (fun x hx => hs x (by simp [hx]))
    simp only [spec]
    split
    · rw [List.filter_append]
      have : block.filter (fun x => !isBlock x) = [] := by
        apply List.filter_eq_nil_iff.mpr; intro b hb'; simp [hb b hb']
      simp [this, h1, hrest]
    · simp [h1, hrest]

#print axioms pass1_eq_spec
#print axioms spec_filter
end Splice
