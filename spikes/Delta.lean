/-! spike: the delta-array bookkeeping of doInsert (increment.go:121-175), loop-faithful,
    equals the specification  shift s = B * #{m ∈ multi | m ≤ s}. -/
namespace Delta

/-- strictly increasing, all ≥ lo -/
def Incr : Nat → List Nat → Prop
  | _, [] => True
  | lo, p :: ps => lo ≤ p ∧ Incr (p+1) ps

theorem Incr.mono {lo lo' : Nat} {ps : List Nat} (h : Incr lo ps) (hl : lo' ≤ lo) : Incr lo' ps := by
  cases ps with
  | nil => trivial
  | cons p ps => exact ⟨Nat.le_trans hl h.1, h.2⟩

theorem Incr.ge {lo : Nat} {ps : List Nat} (h : Incr lo ps) {x : Nat} (hx : x ∈ ps) : lo ≤ x := by
  induction ps generalizing lo with
  | nil => cases hx
  | cons p ps ih =>
    rcases List.mem_cons.mp hx with rfl | hx'
    · exact h.1
    · have := ih h.2 hx'; have := h.1; omega

/-- number of multi positions ≤ s -/
def cnt (ms : List Nat) (s : Nat) : Nat := (ms.filter (· ≤ s)).length

/-- The first loop of doInsert restricted to its delta bookkeeping. `i` = 0-based source index,
    `ms` = remaining multi-line insert lines, `ss` = remaining single-line insert lines (head is
    the pending `deltaLine+1`), `delta` = running counter. Result: (stored deltaArray prefix,
    delta at loop exit, singles not reached). -/
def scan (B : Nat) : Nat → Nat → List Nat → List Nat → Nat → (List Nat × Nat × List Nat)
  | 0, _, _, ss, delta => ([], delta, ss)                 -- i reached len(sources)
  | _+1, _, [], ss, delta => ([], delta, ss)              -- posIdx reached len(insertedPositions)
  | fuel+1, i, m :: ms, ss, delta =>
      let delta1 := if i = m - 1 then delta + B else delta
      let ms1 := if i = m - 1 then ms else m :: ms
      match ss with
      | s :: ss' =>
          if i = s - 1 then
            let r := scan B fuel (i+1) ms1 ss' 0
            (delta1 :: r.1, r.2.1, r.2.2)
          else scan B fuel (i+1) ms1 (s :: ss') delta1
      | [] => scan B fuel (i+1) ms1 [] delta1

/-- prefix sums from `acc` -/
def pre (acc : Nat) : List Nat → List Nat
  | [] => []
  | x :: xs => (acc + x) :: pre (acc + x) xs

/-- the deltaArray after increment.go:160-171: stored slots, the pending slot gets the exit
    delta, untouched slots (-1) count as 0 in the prefix sums. -/
def arrOf (r : List Nat × Nat × List Nat) : List Nat :=
  r.1 ++ (match r.2.2 with | [] => [] | _ :: t => r.2.1 :: t.map (fun _ => 0))

def shifts (B n : Nat) (ms ss : List Nat) : List Nat := pre 0 (arrOf (scan B n 0 ms ss 0))

theorem pre_zeros (a : Nat) (r : List Nat) : pre a (r.map (fun _ => 0)) = r.map (fun _ => a) := by
  induction r generalizing a with
  | nil => rfl
  | cons x xs ih => simp [pre, ih]

theorem cnt_nil (s : Nat) : cnt [] s = 0 := rfl
theorem cnt_cons_le (m s : Nat) (ms : List Nat) (h : m ≤ s) : cnt (m :: ms) s = cnt ms s + 1 := by
  simp [cnt, List.filter, h]
theorem cnt_cons_gt (m s : Nat) (ms : List Nat) (h : s < m) : cnt (m :: ms) s = cnt ms s := by
  have : ¬ m ≤ s := by omega
  simp [cnt, List.filter, this]
theorem cnt_all_gt (ms : List Nat) (lo s : Nat) (h : Incr lo ms) (hs : s < lo) : cnt ms s = 0 := by
  induction ms generalizing lo with
  | nil => rfl
  | cons m ms ih =>
    rw [cnt_cons_gt _ _ _ (by have := h.1; omega)]
    exact ih (m+1) h.2 (by have := h.1; omega)

/-- exit cases: nothing left to insert -/
theorem exit_case (acc delta B : Nat) (ss : List Nat) :
    pre acc (arrOf (([] : List Nat), delta, ss)) = ss.map (fun s => acc + delta + B * cnt [] s) := by
  cases ss with
  | nil => rfl
  | cons s t => simp [arrOf, pre, pre_zeros, cnt_nil]

theorem scan_spec (B : Nat) (fuel i : Nat) (ms ss : List Nat) (delta acc : Nat)
    (hm : Incr (i+1) ms) (hs : Incr (i+1) ss) (hfuel : ∀ m ∈ ms, m ≤ i + fuel) :
    pre acc (arrOf (scan B fuel i ms ss delta)) = ss.map (fun s => acc + delta + B * cnt ms s) := by
  induction fuel generalizing i ms ss delta acc with
  | zero =>
    have hms : ms = [] := by
      cases ms with
      | nil => rfl
      | cons m t => have := hfuel m (by simp); have := hm.1; omega
    subst hms
    simpa [scan] using exit_case acc delta B ss
  | succ fuel ih =>
    cases ms with
    | nil => simpa [scan] using exit_case acc delta B ss
    | cons m ms =>
      obtain ⟨hm1, hm2⟩ := hm
      -- the state after the block test of this iteration
      have key : ∃ delta1 ms1, delta1 = (if i = m - 1 then delta + B else delta) ∧
          ms1 = (if i = m - 1 then ms else m :: ms) ∧ Incr (i+1+1) ms1 ∧
          (∀ x ∈ ms1, x ≤ (i+1) + fuel) ∧
          (∀ s, i + 1 ≤ s → delta1 + B * cnt ms1 s = delta + B * cnt (m :: ms) s) := by
        by_cases him : i = m - 1
        · have hme : m = i + 1 := by omega
          refine ⟨delta + B, ms, by simp [him], by simp [him], by subst hme; exact hm2, ?_, ?_⟩
          · intro x hx; have := hfuel x (by simp [hx]); omega
          · intro s hs'; rw [cnt_cons_le _ _ _ (by omega)]; simp [Nat.mul_add, Nat.add_assoc, Nat.add_comm B]
        · refine ⟨delta, m :: ms, by simp [him], by simp [him], ⟨by omega, hm2⟩, ?_, ?_⟩
          · intro x hx; have := hfuel x hx; omega
          · intro s _; rfl
      obtain ⟨delta1, ms1, hd, hms1, hinc, hf1, hF⟩ := key
      cases ss with
      | nil =>
        have := ih (i+1) ms1 [] delta1 acc hinc trivial hf1
        simp only [scan, ← hd, ← hms1]
        simpa using this
      | cons s t =>
        obtain ⟨hs1, hs2⟩ := hs
        by_cases his : i = s - 1
        · have hse : s = i + 1 := by omega
          subst hse
          have := ih (i+1) ms1 t 0 (acc + delta1) hinc hs2 hf1
          simp only [scan, ← hd, ← hms1, Nat.add_sub_cancel, if_true]
          simp only [arrOf, List.cons_append, pre, List.map_cons] at this ⊢
          have h0 : cnt ms1 (i+1) = 0 := cnt_all_gt ms1 (i+1+1) (i+1) hinc (by omega)
          have hhead := hF (i+1) (Nat.le_refl _)
          rw [h0] at hhead
          congr 1
          · omega
          · rw [this]
            apply List.map_congr_left
            intro x hx
            have hx2 : i + 1 ≤ x := by have := hs2.ge hx; omega
            have := hF x hx2
            omega
        · have hs' : Incr (i+1+1) (s :: t) := ⟨by omega, hs2⟩
          have := ih (i+1) ms1 (s :: t) delta1 acc hinc hs' hf1
          simp only [scan, ← hd, ← hms1, if_neg his]
          rw [this]
          apply List.map_congr_left
          intro x hx
          have hx2 : i + 1 ≤ x := by
            rcases List.mem_cons.mp hx with rfl | hx'
            · exact hs1
            · have := hs2.ge hx'; omega
          have := hF x hx2
          omega

/-- The line shift applied to every single-line insert position is exactly the number of
    multi-line blocks inserted at or before its line, times the block height. -/
theorem shifts_spec (B n : Nat) (ms ss : List Nat) (hm : Incr 1 ms) (hs : Incr 1 ss)
    (hn : ∀ m ∈ ms, m ≤ n) : shifts B n ms ss = ss.map (fun s => B * cnt ms s) := by
  have := scan_spec B n 0 ms ss 0 0 hm hs (by simpa using hn)
  simpa [shifts] using this

#print axioms shifts_spec
example : shifts 4 10 [2, 5] [2, 3, 9] = [4, 4, 8] := by decide
end Delta
