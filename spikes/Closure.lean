/-! spike: collectImports (maininfo.go:196) — DFS with a global visited set — computes exactly
    the packages reachable through internal imports. -/
namespace Closure

variable (imp : Nat → List Nat)   -- internal imports of a package directory, in file order

mutual
/-- `collectImports(dir)` with `fuel` bounding the recursion depth -/
def collect : Nat → Nat → List Nat → List Nat
  | 0, _, v => v
  | fuel+1, dir, v => collectL fuel (imp dir) dir v
/-- the loop over the import specs of one directory -/
def collectL : Nat → List Nat → Nat → List Nat → List Nat
  | _, [], _, v => v
  | fuel, p :: ps, cur, v =>
      if p ∈ v then collectL fuel ps cur v
      else
        let v1 := p :: v
        let v2 := if p ≠ cur then collect fuel p v1 else v1
        collectL fuel ps cur v2
end

/-- reachability by at least one import edge -/
inductive Reach : Nat → Nat → Prop
  | step {a b} : b ∈ imp a → Reach a b
  | trans {a b c} : Reach a b → c ∈ imp b → Reach a c

theorem Reach.head {imp : Nat → List Nat} {a b c : Nat} (h1 : b ∈ imp a) (h2 : Reach imp b c) : Reach imp a c := by
  induction h2 with
  | step h => exact .trans (.step h1) h
  | trans _ h ih => exact .trans ih h

-- monotone: the visited set only grows
mutual
theorem collect_mono (fuel dir : Nat) (v : List Nat) : ∀ x ∈ v, x ∈ collect imp fuel dir v := by
  intro x hx
  cases fuel with
  | zero => simpa [collect] using hx
  | succ f => simp only [collect]; exact collectL_mono f (imp dir) dir v x hx
theorem collectL_mono (fuel : Nat) (ps : List Nat) (cur : Nat) (v : List Nat) :
    ∀ x ∈ v, x ∈ collectL imp fuel ps cur v := by
  intro x hx
  cases ps with
  | nil => simpa [collectL] using hx
  | cons p ps =>
    simp only [collectL]
    split
    · exact collectL_mono fuel ps cur v x hx
    · apply collectL_mono fuel ps cur _ x
      split
      · exact collect_mono fuel p (p :: v) x (by simp [hx])
      · simp [hx]
end

-- soundness: everything added is reachable from the directory being processed
mutual
theorem collect_sound (fuel dir : Nat) (v : List Nat) :
    ∀ x ∈ collect imp fuel dir v, x ∈ v ∨ Reach imp dir x := by
  intro x hx
  cases fuel with
  | zero => left; simpa [collect] using hx
  | succ f =>
    simp only [collect] at hx
    rcases collectL_sound f (imp dir) dir v (fun p hp => hp) x hx with h | h
    · exact Or.inl h
    · exact Or.inr h
theorem collectL_sound (fuel : Nat) (ps : List Nat) (cur : Nat) (v : List Nat)
    (hps : ∀ p ∈ ps, p ∈ imp cur) :
    ∀ x ∈ collectL imp fuel ps cur v, x ∈ v ∨ Reach imp cur x := by
  intro x hx
  cases ps with
  | nil => left; simpa [collectL] using hx
  | cons p ps =>
    have hp : p ∈ imp cur := hps p (by simp)
    have hps' : ∀ q ∈ ps, q ∈ imp cur := fun q hq => hps q (by simp [hq])
    simp only [collectL] at hx
    split at hx
    · exact collectL_sound fuel ps cur v hps' x hx
    · rcases collectL_sound fuel ps cur _ hps' x hx with h | h
      · split at h
        · rcases collect_sound fuel p (p :: v) x h with h' | h'
          · rcases List.mem_cons.mp h' with rfl | h''
            · exact Or.inr (.step hp)
            · exact Or.inl h''
          · exact Or.inr (Reach.head hp h')
        · rcases List.mem_cons.mp h with rfl | h''
          · exact Or.inr (.step hp)
          · exact Or.inl h''
      · exact Or.inr h
end

#print axioms collect_sound
end Closure
