import Strip
namespace Strip
variable {α : Type} (cls : α → LK)

theorem strip_nil : strip cls ([] : List α) = [] := by
  unfold strip; rfl

theorem strip_cons_none (x : α) (r : List α) (h : matchAt cls (x :: r) = none) :
    strip cls (x :: r) = x :: strip cls r := by
  rw [strip]; split
  · next rest hm => rw [h] at hm; cases hm
  · rfl

theorem strip_cons_some (x : α) (r rest : List α) (h : matchAt cls (x :: r) = some rest) :
    strip cls (x :: r) = strip cls rest := by
  rw [strip]; split
  · next rest' hm => rw [h] at hm; cases hm; rfl
  · next hm => rw [h] at hm; cases hm

/-- a run of blank user lines -/
def blanks (bs : List α) : Prop := ∀ b ∈ bs, cls b = .blank

theorem matchAt_blanks_block (bs : List α) (s : α) (body : List α) (e : α) (rest : List α)
    (hb : blanks cls bs) (hs : cls s = .start) (he : cls e = .endm)
    (hbody : ∀ b ∈ body, cls b ≠ .endm) :
    matchAt cls (bs ++ s :: (body ++ e :: rest)) = some rest := by
  induction bs with
  | nil => simp [matchAt, hs, afterEnd_body cls body e rest hbody he]
  | cons b t ih =>
    have : cls b = .blank := hb b (by simp)
    simp [matchAt, this]
    exact ih (fun x hx => hb x (by simp [hx]))

/-- blanks followed by an `other` line or by end of input: no match at the head -/
theorem matchAt_blanks_other (bs : List α) (x : α) (rest : List α)
    (hb : blanks cls bs) (hx : cls x = .other) :
    matchAt cls (bs ++ x :: rest) = none := by
  induction bs with
  | nil => simp [matchAt, hx]
  | cons b t ih =>
    have : cls b = .blank := hb b (by simp)
    simp [matchAt, this]
    exact ih (fun y hy => hb y (by simp [hy]))

theorem matchAt_blanks_end (bs : List α) (hb : blanks cls bs) :
    matchAt cls bs = none := by
  induction bs with
  | nil => simp [matchAt]
  | cons b t ih =>
    have : cls b = .blank := hb b (by simp)
    simp [matchAt, this]
    exact ih (fun y hy => hb y (by simp [hy]))

theorem nonBlank_blanks (bs : List α) (hb : blanks cls bs) : nonBlank cls bs = [] := by
  induction bs with
  | nil => rfl
  | cons b t ih =>
    have : cls b = .blank := hb b (by simp)
    simp [nonBlank, this]
    have := ih (fun y hy => hb y (by simp [hy]))
    simpa [nonBlank] using this

theorem nonBlank_append (a b : List α) : nonBlank cls (a ++ b) = nonBlank cls a ++ nonBlank cls b := by
  simp [nonBlank]

/-- stripping a pending run of blanks followed by a well-formed rest:
    non-blank content is that of the rest. Generalised statement for the induction. -/
theorem strip_pending (items : List (Item α)) (hwf : ∀ it ∈ items, it.WF cls) :
    ∀ (bs : List α), blanks cls bs →
      nonBlank cls (strip cls (bs ++ flatten items)) = nonBlank cls (users items) := by
  induction items with
  | nil =>
    intro bs hb
    simp [flatten, users]
    -- strip of blanks only keeps blanks
    induction bs with
    | nil => simp [strip_nil, nonBlank]
    | cons b t ih =>
      have hm := matchAt_blanks_end cls (b :: t) hb
      rw [strip_cons_none cls b t hm]
      have hb' : cls b = .blank := hb b (by simp)
      have := ih (fun y hy => hb y (by simp [hy]))
      simp [nonBlank, hb'] at this ⊢
      exact this
  | cons it rest ih =>
    intro bs hb
    have hwf' : ∀ it ∈ rest, it.WF cls := fun i hi => hwf i (by simp [hi])
    have hit := hwf it (by simp)
    cases it with
    | user x =>
      simp only [flatten, users]
      rcases hit with hx | hx
      · -- blank user line joins the pending run
        have := ih hwf' (bs ++ [x]) (by
          intro y hy; simp at hy; rcases hy with hy | hy
          · exact hb y hy
          · subst hy; exact hx)
        simp [List.append_assoc] at this
        rw [this]
        simp [nonBlank, hx]
      · -- `other` line: pending blanks and x are all kept
        -- peel the blanks one by one
        induction bs with
        | nil =>
          simp
          have hm : matchAt cls (x :: flatten rest) = none := by simp [matchAt, hx]
          rw [strip_cons_none cls x _ hm]
          have := ih hwf' [] (by intro y hy; cases hy)
          simp at this
          simp [nonBlank, hx] at this ⊢
          exact this
        | cons b t ihb =>
          have hm := matchAt_blanks_other cls (b :: t) x (flatten rest) hb hx
          simp only [List.cons_append] at hm ⊢
          rw [strip_cons_none cls b _ hm]
          have hb' : cls b = .blank := hb b (by simp)
          have := ihb (fun y hy => hb y (by simp [hy]))
          simp [nonBlank, hb'] at this ⊢
          exact this
    | block s body e =>
      simp only [flatten, users]
      obtain ⟨hs, he, hbody⟩ := hit
      cases bs with
      | nil =>
        have hm := matchAt_blanks_block cls [] s body e (flatten rest) (by intro y hy; cases hy) hs he hbody
        simp only [List.nil_append] at hm ⊢
        rw [strip_cons_some cls s _ _ hm]
        simpa using ih hwf' [] (by intro y hy; cases hy)
      | cons b t =>
        have hm := matchAt_blanks_block cls (b :: t) s body e (flatten rest) hb hs he hbody
        simp only [List.cons_append] at hm ⊢
        rw [strip_cons_some cls b _ _ hm]
        simpa using ih hwf' [] (by intro y hy; cases hy)

theorem strip_nonBlank' (items : List (Item α)) (hwf : ∀ it ∈ items, it.WF cls) :
    nonBlank cls (strip cls (flatten items)) = nonBlank cls (users items) := by
  simpa using strip_pending cls items hwf [] (by intro y hy; cases hy)

#print axioms strip_nonBlank'
end Strip
