/-! spike: nested AST, traversal, membership theorem -/
namespace Spike

mutual
inductive Expr where
  | funcLit (lb rb : Nat) (body : List Stmt)
  | call (fn : Expr) (args : List Expr)
  | other (children : List Expr)
inductive Stmt where
  | assign (line : Nat) (rhs : List Expr)
  | ifS (line : Nat) (cond : Expr) (body : List Stmt) (els : Option Stmt)
  | block (line : Nat) (body : List Stmt)
  | exprS (line : Nat) (x : Expr)
end

mutual
def evE : Expr → List Nat
  | .funcLit _ _ body => evL body
  | .call fn args => evE fn ++ evEs args
  | .other _ => []
def evEs : List Expr → List Nat
  | [] => []
  | e :: es => evE e ++ evEs es
def evS : Stmt → List Nat
  | .assign l rhs => l :: evEs rhs
  | .ifS _ _ body els => evL body ++ (match els with | none => [] | some s => evS s)
  | .block l body => l :: evL body
  | .exprS l x => match x with
      | .call fn args => l :: (evE fn ++ evEs args)
      | _ => []
def evL : List Stmt → List Nat
  | [] => []
  | s :: ss => evS s ++ evL ss
end

-- "simple statements reachable by the walker"
mutual
inductive InE : Nat → Expr → Prop
  | lit {l lb rb body} : InL l body → InE l (.funcLit lb rb body)
  | callF {l fn args} : InE l fn → InE l (.call fn args)
  | callA {l fn args} : InEs l args → InE l (.call fn args)
inductive InEs : Nat → List Expr → Prop
  | head {l e es} : InE l e → InEs l (e :: es)
  | tail {l e es} : InEs l es → InEs l (e :: es)
inductive InS : Nat → Stmt → Prop
  | assign {l rhs} : InS l (.assign l rhs)
  | assignR {l l' rhs} : InEs l rhs → InS l (.assign l' rhs)
  | ifB {l l' c body els} : InL l body → InS l (.ifS l' c body els)
  | ifE {l l' c body s} : InS l s → InS l (.ifS l' c body (some s))
  | blk {l body} : InS l (.block l body)
  | blkB {l l' body} : InL l body → InS l (.block l' body)
  | callS {l fn args} : InS l (.exprS l (.call fn args))
  | callSF {l l' fn args} : InE l fn → InS l (.exprS l' (.call fn args))
  | callSA {l l' fn args} : InEs l args → InS l (.exprS l' (.call fn args))
inductive InL : Nat → List Stmt → Prop
  | head {l s ss} : InS l s → InL l (s :: ss)
  | tail {l s ss} : InL l ss → InL l (s :: ss)
end

mutual
theorem inE_ev {l e} (h : InE l e) : l ∈ evE e := by
  cases h with
  | lit h => rw [evE]; exact inL_ev h
  | callF h => simp [evE]; exact Or.inl (inE_ev h)
  | callA h => simp [evE]; exact Or.inr (inEs_ev h)
theorem inEs_ev {l es} (h : InEs l es) : l ∈ evEs es := by
  cases h with
  | head h => simp [evEs]; exact Or.inl (inE_ev h)
  | tail h => simp [evEs]; exact Or.inr (inEs_ev h)
theorem inS_ev {l s} (h : InS l s) : l ∈ evS s := by
  cases h with
  | assign => simp [evS]
  | assignR h => simp [evS]; exact Or.inr (inEs_ev h)
  | ifB h => unfold evS; exact List.mem_append.mpr (Or.inl (inL_ev h))
  | ifE h => simp [evS]; exact Or.inr (inS_ev h)
  | blk => simp [evS]
  | blkB h => simp [evS]; exact Or.inr (inL_ev h)
  | callS => simp [evS]
  | callSF h => simp [evS]; exact Or.inr (Or.inl (inE_ev h))
  | callSA h => simp [evS]; exact Or.inr (Or.inr (inEs_ev h))
theorem inL_ev {l ss} (h : InL l ss) : l ∈ evL ss := by
  cases h with
  | head h => simp [evL]; exact Or.inl (inS_ev h)
  | tail h => simp [evL]; exact Or.inr (inL_ev h)
end

#print axioms inS_ev
#eval evL [.assign 3 [.funcLit 3 5 [.exprS 4 (.call (.other []) [])]], .ifS 6 (.other []) [.block 7 []] none]
end Spike
