namespace Strip

inductive LK where | blank | start | endm | other
deriving DecidableEq, Repr

variable {α : Type} (cls : α → LK)

def afterEnd : List α → Option (List α)
  | [] => none
  | x :: r => if cls x = .endm then some r else afterEnd r

def matchAt : List α → Option (List α)
  | [] => none
  | x :: r => match cls x with
    | .blank => matchAt r
    | .start => afterEnd cls r
    | _ => none

theorem afterEnd_len {l r : List α} (h : afterEnd cls l = some r) : r.length < l.length := by
  induction l with
  | nil => simp [afterEnd] at h
  | cons x t ih =>
    simp only [afterEnd] at h
    split at h
    · cases h; simp
    · have := ih h; simp; omega

theorem matchAt_len {l r : List α} (h : matchAt cls l = some r) : r.length < l.length := by
  induction l with
  | nil => simp [matchAt] at h
  | cons x t ih =>
    simp only [matchAt] at h
    split at h
    · have := ih h; simp; omega
    · have := afterEnd_len cls h; simp; omega
    · cases h

def strip (l : List α) : List α :=
  match l with
  | [] => []
  | x :: r =>
    match h : matchAt cls (x :: r) with
    | some rest => strip rest
    | none => x :: strip r
termination_by l.length
decreasing_by
  · exact matchAt_len cls h
  · simp

/-- items of a well-formed file -/
inductive Item (α : Type) where
  | user (x : α)
  | block (s : α) (body : List α) (e : α)

def Item.WF : Item α → Prop
  | .user x => cls x = .blank ∨ cls x = .other
  | .block s body e => cls s = .start ∧ cls e = .endm ∧ ∀ b ∈ body, cls b ≠ .endm

def flatten : List (Item α) → List α
  | [] => []
  | .user x :: r => x :: flatten r
  | .block s b e :: r => s :: (b ++ e :: flatten r)

def users : List (Item α) → List α
  | [] => []
  | .user x :: r => x :: users r
  | .block _ _ _ :: r => users r

def nonBlank (l : List α) : List α := l.filter (fun x => cls x ≠ .blank)

theorem afterEnd_body (body : List α) (e : α) (rest : List α)
    (hb : ∀ b ∈ body, cls b ≠ .endm) (he : cls e = .endm) :
    afterEnd cls (body ++ e :: rest) = some rest := by
  induction body with
  | nil => simp [afterEnd, he]
  | cons b t ih =>
    have hb' : cls b ≠ .endm := hb b (by simp)
    simp [afterEnd, hb']
    exact ih (fun x hx => hb x (by simp [hx]))

end Strip
