#!/bin/sh
# tools_runall.sh [tier] [ids…] — runs the listed (default: all) checks on the unchanged tree, 4 at a time,
# and prints one line per check; logs in .work/runall/<id>.log
cd "$(dirname "$0")"
TIER="${1:-quick}"; [ $# -gt 0 ] && shift
IDS="$*"; [ -z "$IDS" ] && IDS="C01 C02 C03 C04 C05 C06 C07 C08 C09 C10 C11 C12 C13 C14 C15 C16 C17"
mkdir -p .work/runall
git -C /repo status --short | grep -q . && echo "WARNING: /repo working tree is not clean"
echo $IDS | tr ' ' '\n' | xargs -P 4 -I{} sh -c './check {} '"$TIER"' > .work/runall/{}.log 2>&1; echo "{} exit=$? $(grep -c "^VIOLATION" .work/runall/{}.log) violation line(s) $(tail -1 .work/runall/{}.log | sed "s/.*\] //")"'
