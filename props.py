"""Per-property wiring of the check: theorem modules, correspondence streams, end-to-end oracles."""

TRUSTED_BASE = [
    "Lean 4.33.0 kernel (thorough tier: re-checked by leanchecker); axioms per theorem as listed under coverage.theorems (allowed: propext, Quot.sound, Classical.choice); no sorry/admit/native_decide/bv_decide/own axioms (grepped)",
    "the hand-written Lean model's reading of the Go code, tied on every run by the differential correspondence streams listed under coverage.correspondence (to the extent of their generators)",
    "harness (Go): generators, canonicalisation, Go-side oracles; compiled Lean driver goatspec (Lean compiler trusted to agree with kernel reduction for the model functions)",
    "GoatSpec/Extracted.lean regenerated from the compiled /repo packages by `vh extract` on every run",
]

PROPS = {
    "C06": dict(
        lean=["GoatSpec.Properties.C06"],
        streams=["text-pass-raw", "text-clean-tokens"],
        e2e=[],
        trusted=["modelled, not verified: Go regexp engine on whole lines (tied by exhaustive small arrangements), go/parser+go/printer re-formatting, astutil import deletion, os file API"],
        assumptions=["A2: go/printer∘go/parser preserves syntax tree and comments", "A3: astutil.DeleteNamedImport only edits import declarations"],
    ),
}
