"""Per-property wiring of the check: theorem modules, correspondence streams, end-to-end oracles."""

TRUSTED_BASE = [
    "Lean 4.33.0 kernel (thorough tier: re-checked by leanchecker); axioms per theorem as listed under coverage.theorems (allowed: propext, Quot.sound, Classical.choice); no sorry/admit/native_decide/bv_decide/own axioms (grepped)",
    "the hand-written Lean model's reading of the Go code, tied on every run by the differential correspondence streams listed under coverage.correspondence (to the extent of their generators)",
    "harness (Go): generators, canonicalisation, Go-side oracles; compiled Lean driver goatspec (Lean compiler trusted to agree with kernel reduction for the model functions)",
    "GoatSpec/Extracted.lean regenerated from the compiled /repo packages by `vh extract` on every run",
    "GoatSpec/Walker.lean regenerated from /repo/pkg/tracking/increment.go by the syntactic translator `vh walker` (go/parser; trusted: the translator's reading of type-switch arms, guards, range loops and the four marking calls - it refuses every other construct; GoatSpec/GoAst.lean as the typed mirror of go/ast and of the harness extractor internal/absast); the meaning of the translated IR is defined in Lean (WalkSpec) and Properties/Walker proves it equal to the model's walk equations for every node",
    "GoatSpec/Skeleton.lean regenerated from /repo's Go source by the translator `vh skeleton` (go/packages + go/types; trusted: the translator, its list of file-system mutating primitives, static call resolution - calls through function values are reported as fallible unknowns, reflection/cgo/unsafe are invisible); its summary table is only a hint: the kernel checks that it is a fixed point of the Lean transfer function",
]

_INSTR_TRUSTED = ["modelled, not verified: go/parser positions and go/printer re-formatting (A1, A2), astutil import editing (A3); internal/absast extractor (never calls goat functions) is trusted to report node kinds, Walk order and line numbers faithfully"]

PROPS = {
    "C01": dict(lean=["GoatSpec.Properties.C01", "GoatSpec.Properties.Pools", "GoatSpec.Properties.Walker"], streams=["marks-corpus", "marks-stdlib", "marks-gen"], e2e=["track"], trusted=_INSTR_TRUSTED,
                assumptions=["A1: inserting the 4-line block at a statement boundary of a function body, plus one import, keeps the package compiling"]),
    "C02": dict(lean=["GoatSpec.Properties.C02", "GoatSpec.Properties.Pools"], streams=["marks-corpus", "marks-stdlib", "marks-gen"], e2e=["track"], trusted=_INSTR_TRUSTED,
                assumptions=["A2: go/printer∘go/parser preserves syntax tree and comments", "A3: astutil.AddNamedImport only edits import declarations"]),
    "C03": dict(lean=["GoatSpec.Properties.C03", "GoatSpec.Properties.C03Patch", "GoatSpec.Properties.Walker"], streams=["marks-corpus", "marks-stdlib", "marks-gen"], e2e=["track"], trusted=_INSTR_TRUSTED, assumptions=[]),
    "C09": dict(lean=["GoatSpec.Properties.C09", "GoatSpec.Properties.C09Shape", "GoatSpec.Properties.Walker"], streams=["marks-corpus", "marks-stdlib", "marks-gen", "diff-exact"], e2e=["track"], trusted=_INSTR_TRUSTED, assumptions=[]),
    "C06": dict(
        lean=["GoatSpec.Properties.C06", "GoatSpec.Properties.Pools"],
        streams=["text-pass-raw", "text-clean-tokens", "text-clean-file"],
        e2e=["track"],
        trusted=["modelled, not verified: Go regexp engine on whole lines (tied by exhaustive small arrangements), go/parser+go/printer re-formatting, astutil import deletion, os file API"],
        assumptions=["A2: go/printer∘go/parser preserves syntax tree and comments", "A3: astutil.DeleteNamedImport only edits import declarations"],
    ),
    "C07": dict(
        lean=["GoatSpec.Properties.C07"],
        streams=["runtime-ops"],
        e2e=["track"],
        trusted=["modelled, not verified: Go semantics of the rendered template (array indexing, uint32 arithmetic, strconv.Atoi, strings.Split, map lookup), sync/atomic (one Track call = one atomic step), net/http request parsing, encoding/json; tied by compiling and running the real rendered code (runtime-ops)",
                 "Go-side oracles of runtime-ops outside the model: md5 `version` of the items, item names TRACK_ID_<id>, app name/version labels, HELP/TYPE lines of /metrics (flag h1 in the canonical answer)",
                 "canonicalisation in the harness: /track items inside a run of equal sort keys are put in ascending id order (sort.Slice is unstable); runtime panic texts mapped to {div0, oob i len}"],
        assumptions=["A7: sync/atomic, net/http, encoding/json behave as documented; a Track call with race:true is a single atomic read-modify-write (theorem atomic_interleave is about interleavings of such steps; without race only sequential callers are in scope)",
                     "Values as goat builds them: TrackIds = 1..N in order, component ids = positions, component names pairwise distinct, component ids within 1..N (anything else does not compile)"],
    ),
    "C05": dict(lean=["GoatSpec.Properties.C05", "GoatSpec.Properties.Pools"], streams=["ids"], e2e=["track", "patch"],
                trusted=["modelled, not verified: regexp.QuoteMeta replacement of the placeholder (utils.Replace), text/template rendering of the generated package, go/parser ImportsOnly; directory names are abstract identifiers in the closure model"],
                assumptions=["the generated file's const block is `TRACK_ID_START = iota` followed by the ids in list order (checked end to end by parsing the generated file)"]),
    "C13": dict(lean=["GoatSpec.Properties.C13"], streams=["paths"], e2e=["track-decoys"],
                trusted=["modelled, not verified: filepath.Walk order and SkipDir semantics, os.Stat for nested go.mod detection, go-git tree diff paths; path strings are split into segments by the harness"],
                assumptions=["paths are slash-separated relative paths as produced by filepath.Walk(\".\") and go-git"]),
    "C16": dict(
        lean=["GoatSpec.Properties.C16"],
        streams=["config-init", "config-load"],
        e2e=[],
        trusted=["modelled, not verified: gopkg.in/yaml.v3 on the emitted shapes (line-level loader, tied on every generated file - A9), text/template execution of the parsed segment table, "
                 "cobra flag parsing, go-git revision resolution (a parameter of the model: the harness asks the git CLI and adds go-git's hash-prefix rule), os file API",
                 "abstractions: Go's nil slice and the empty slice are both [] (goat init and the emitted YAML never produce an empty non-nil slice); strconv.Quote is modelled on printable text plus newline, tab, carriage return"],
        assumptions=["A9: yaml.v3 agrees with the line-level loader on the emitted shapes (monitored: real LoadConfig vs model load on every generated and mutated file)"],
    ),
    "C10": dict(lean=["GoatSpec.Properties.C10", "GoatSpec.Properties.Pools"], streams=["text-pass-raw", "text-patch-tokens", "text-patch-file"], e2e=["patch"],
                trusted=["modelled, not verified: Go regexp engine on whole lines (tied exhaustively on small arrangements), go/parser+go/printer, astutil import editing, template rendering of the generated file"],
                assumptions=["A2/A3 as for C02/C06; 'the project still compiles' is an end-to-end oracle (go build), not a theorem"]),
    "C11": dict(lean=["GoatSpec.Properties.C11", "GoatSpec.Properties.C06", "GoatSpec.Properties.C10"], streams=[], e2e=["sequences"],
                trusted=["modelled, not verified: git (commit/checkout/clean/status), go build, the regexp passes and the instrumenter below the item level (their own properties C01-C10 tie them); the abstract machine takes git's dirtiness and the diff's yield as inputs"],
                assumptions=["user edits stay outside marker blocks; marker edits are valid (+goat:generate -> +goat:delete, +goat:insert on its own line at a statement boundary)"]),
    "C12": dict(lean=["GoatSpec.Properties.C12"], streams=[], e2e=["refusals"],
                trusted=["modelled, not verified: cobra pre-run plumbing, go-git status/revision resolution, yaml.v3; the ORDER of the checks is hand-modelled and tied by e2e refusals (predicted refusal = observed message class for every scenario)"],
                assumptions=["object store and reflogs are append-only stores outside the property (snapshot covers work tree, index, HEAD, refs, packed-refs)"]),
    "C15": dict(lean=["GoatSpec.Properties.C15"], streams=[], e2e=["crash"],
                trusted=["modelled, not verified: os.WriteFile atomicity at whole-file granularity (A8); the crash hook lets writes already past their boundary finish (threads>1)"],
                assumptions=["A8: crash granularity is whole-file writes (torn writes are out of scope by the property's own text)"]),
    "C08": dict(
        lean=["GoatSpec.Properties.C08"],
        streams=[],
        e2e=["threads"],
        partial="PARTIAL. Proved (Lean, all task lists / completion orders / permutations / interleavings): the aggregation logic of the worker pools is order-independent - "
                "results written by index (pool_by_index), filterValidFileChanges returns the valid entries as a multiset (filterValid_perm_valid), any sort by unique path yields one list and "
                "hence one id plan (sorted_perm_unique, numbering_perm, plan_schedule_independent), whole-file writes with distinct paths commute (collect_perm), an atomic OR-reduction of the "
                "changed flag yields the disjunction under every interleaving (or_reduce_atomic); witness changed_lost_update for the pinned non-atomic read-modify-write (D-C08-1). "
                "NOT proved, only monitored end to end (assumption_monitor, e2e threads): that the Go code is such a skeleton, i.e. absence of data races under the Go memory model, go-git's "
                "internal mutable state, the file system - byte-identical trees over threads x GOMAXPROCS x precision x loose/packed x track/patch/clean x repetition, and `go build -race` executions "
                "that must report neither DATA RACE nor concurrent map access.",
        trusted=["modelled, not verified: that each worker task is a function of its input alone and that the steps of the skeleton are atomic (Go memory model, sync.WaitGroup/channel semantics, "
                 "sync/atomic, go-git storage, os file API); the Go race detector (reports only races of the observed executions)"],
        assumptions=["A8 (monitored, not proved): the Go implementation has no data race between worker goroutines; each per-file task (diff analysis, tracker, patch/clean content) is a pure function of "
                     "the repository and file contents; paths of changed files are pairwise distinct"],
    ),
    "C14": dict(
        lean=["GoatSpec.Properties.C14", "GoatSpec.Properties.Pools"],
        streams=[],
        e2e=["behaviour"],
        partial="PARTIAL. Proved (Lean, every program given as a labelled transition system over UserState x Coverage - nondeterministic, any number of goroutines inside the state - every trace, "
                "every placement of tracking calls): erase_track / lift_track / same_behaviours (deleting the tracking steps of an execution of the instrumented build gives an execution of the original "
                "with the same output and final user state, and conversely), track_commutes / swap_adjacent, covered_exact (status id > 0 iff a track id step occurred; count mode exact counts, through "
                "C07 status_counts), and the same for an instrumented program with its own control states from three frame conditions (instr_erase_track, instr_lift_track). "
                "NOT proved, only monitored end to end (assumption_monitor, e2e behaviour): that a Go statement sequence with goat's inserted blocks is such a transition system satisfying the frame "
                "conditions (Go's dynamic semantics, scheduling, the service goroutine) - original vs instrumented binaries of generated deterministic programs: equal stdout and exit status, "
                "ids reported covered == ids recorded by an independent probe next to every tracking call.",
        trusted=["modelled, not verified: Go's dynamic semantics and scheduler; the Go compiler; the harness-side probe rewrite (VerifHit next to every tracking call, VerifDump at the top of main, "
                 "os.Exit -> VerifExit in the driver) is trusted not to change behaviour (its build is compared with the original as well)"],
        assumptions=["A10 (monitored, not proved): a Go program with goat's blocks inserted between statements is a transition system in which Track steps touch only trackIdStatus and user steps never "
                     "read it (frame conditions user_sim, track_stutter, lift of NonInterf.Instr); programs are deterministic (checked: the original is run twice); GOAT_PORT=0 so the service goroutine cannot fail"],
    ),
    "C04": dict(lean=["GoatSpec.Properties.C04"], streams=["diff-pairs", "diff-histories", "diff-filter", "diff-exact"], e2e=[],
                trusted=["modelled, not verified: go-git tree diff, rename detection, diffmatchpatch line diff and blame (inputs of the model: chunk lists, blame vectors, commit table — computed by the harness by calling go-git directly on the same repository, never through goat); "
                         "the git CLI (repository construction, `git cat-file` contents the judge compares against); path eligibility is an input here (modelled and proved in C13)"],
                assumptions=["A4: go-git chunks concatenate to the two blobs (monitored: the judge compares against git cat-file contents, not against the chunks)",
                             "A5: diffmatchpatch trims the common leading/trailing lines (monitored by the bound clause of judge:diff on every precision 2/3 answer)",
                             "A6: go-git blame is faithful: when old is an ancestor of new, the lines of the new file blamed to old or one of its ancestors occur, in order, in old's version of the file (monitored: judge:diff on every precision 1 answer of an ancestor history)",
                             "files end with a newline (Go sources after gofmt); an unterminated last line is the recorded known finding D-C04-2"]),
    "C17": dict(lean=["GoatSpec.Properties.C17"], streams=["diff-exact", "diff-histories"], e2e=["history-pairs"],
                trusted=["modelled, not verified: go-git (tree diff, rename detection, diffmatchpatch, blame), the git CLI; the instrumenter below the diff stage is exercised end to end, not modelled here (C01-C03, C05)"],
                assumptions=["A10: diffmatchpatch returns a script that keeps every common line when all lines are unique and the common lines appear in the same order (monitored: judge:exact on every answer of diff-exact)",
                             "A6 (precision 1 exactness): go-git blame attributes a unique line to the commit that introduced it"]),
    "C16": dict(
        lean=["GoatSpec.Properties.C16"],
        streams=["config-init", "config-load"],
        e2e=[],
        trusted=["modelled, not verified: gopkg.in/yaml.v3 on the emitted shapes (line-level loader, tied on every generated file - A9), text/template execution of the parsed segment table, "
                 "cobra flag parsing, go-git revision resolution (a parameter of the model: the harness asks the git CLI and adds go-git's hash-prefix rule), os file API",
                 "abstractions: Go's nil slice and the empty slice are both [] (goat init and the emitted YAML never produce an empty non-nil slice); strconv.Quote is modelled on printable text plus newline, tab, carriage return"],
        assumptions=["A9: yaml.v3 agrees with the line-level loader on the emitted shapes (monitored: real LoadConfig vs model load on every generated and mutated file)"],
    ),
    "C17": dict(lean=["GoatSpec.Properties.C17"], streams=["diff-exact", "diff-histories"], e2e=["history-pairs"],
                trusted=["modelled, not verified: go-git (tree diff, rename detection, diffmatchpatch, blame), the git CLI; the instrumenter below the diff stage is exercised end to end, not modelled here (C01-C03, C05)"],
                assumptions=["A10: diffmatchpatch returns a script that keeps every common line when all lines are unique and the common lines appear in the same order (monitored: judge:exact on every answer of diff-exact)",
                             "A6 (precision 1 exactness): go-git blame attributes a unique line to the commit that introduced it"]),
    "C16": dict(
        lean=["GoatSpec.Properties.C16"],
        streams=["config-init", "config-load"],
        e2e=[],
        trusted=["modelled, not verified: gopkg.in/yaml.v3 on the emitted shapes (line-level loader, tied on every generated file - A9), text/template execution of the parsed segment table, "
                 "cobra flag parsing, go-git revision resolution (a parameter of the model: the harness asks the git CLI and adds go-git's hash-prefix rule), os file API",
                 "abstractions: Go's nil slice and the empty slice are both [] (goat init and the emitted YAML never produce an empty non-nil slice); strconv.Quote is modelled on printable text plus newline, tab, carriage return"],
        assumptions=["A9: yaml.v3 agrees with the line-level loader on the emitted shapes (monitored: real LoadConfig vs model load on every generated and mutated file)"],
    ),
}
