#!/usr/bin/env python3
"""tools_seeded_summary.py — regenerates seeded/SUMMARY.md (one row per stored seeded change:
which check caught it in which trial, with a failing input or only as a broken correspondence)."""
import json, glob, os, re

ROOT = os.path.dirname(os.path.abspath(__file__))


def key(d):
    m = re.match(r"C(\d+)-(\d+)", os.path.basename(d))
    return (int(m.group(1)), int(m.group(2)))


def main():
    rows = []
    n = caught = with_input = 0
    for d in sorted(glob.glob(os.path.join(ROOT, "seeded", "C*-*")), key=key):
        m = json.load(open(os.path.join(d, "meta.json")))
        tr = m.get("trials")
        if tr is None:
            cr = m.get("checks_run", {})
            tr = [{c: dict(exit=v["exit"], first_detail=v.get("first_detail", []), violation_lines=v.get("violation_lines", [])) for c, v in cr.items()}]
        conf = m.get("confirmed_by_me", {})
        confirmed = conf.get("confirmed", all(conf.get(k) for k in ("applies", "builds", "existing_tests_pass", "demo_fails_with_change", "demo_passes_without")))
        hist = [("+".join(c for c, v in t.items() if v["exit"] != 0) or "missed") for t in tr]
        last = tr[-1] if tr else {}
        how = ""
        for c, v in last.items():
            if v["exit"] != 0 and v.get("first_detail"):
                nf = any("no-failing-input-found" in x for x in v.get("violation_lines", [])[:1])
                det = v["first_detail"][0]
                det = re.sub(r"\s+", " ", det)[:170].replace("|", "¦")
                how = ("correspondence only (no-failing-input-found): " if nf else "failing input: ") + det
                if not nf:
                    with_input += 1
                break
        if confirmed:
            n += 1
            if hist and hist[-1] != "missed":
                caught += 1
        status = " → ".join(hist) if hist else "not run"
        if not confirmed:
            status = "not confirmed (" + str(conf.get("error") or "demo/build")[:60] + ")"
        rows.append(f"| {os.path.basename(d)} | {m.get('summary', '')[:230].replace('|', '¦')} | {status} | {how} |")
    out = ["# Seeded changes and what the checks made of them", "",
           f"{n} confirmed changes (each compiles with and without `-tags verif`, passes the 259 existing tests, demonstration fails with it and passes without); "
           f"caught by the final state of the checks: {caught}; with a concrete failing input: {with_input}. "
           "Column *trials* lists every run of the checks against the change in order (a change missed first and caught after a check was strengthened shows both).", "",
           "| id | change | trials (checks that exited 1) | how the last trial reported it |", "|---|---|---|---|"] + rows
    open(os.path.join(ROOT, "seeded", "SUMMARY.md"), "w").write("\n".join(out) + "\n")
    print(f"{n} confirmed, {caught} caught, {with_input} with failing input")


if __name__ == "__main__":
    main()
