#!/bin/sh
# tools_trial_batch.sh <env suffix> <out prefix> <result prefix> <id> [<id>…] — runs every patch_i.diff of
# the listed properties through tools_mutant.py in the isolated trial environment <suffix>.
S="$1"; OUT="$2"; RES="$3"; shift 3
export TRIAL_VERIF=/tmp/verif_trial$S TRIAL_REPO=/tmp/repo_trial$S
cd /verif
for id in "$@"; do
  for i in 1 2 3; do
    [ -f "$OUT$id/patch_$i.diff" ] || continue
    python3 tools_mutant.py $id $OUT$id $i > ${RES}_${id}_$i.json 2>&1
  done
done
echo DONE > ${RES}_done_$S
