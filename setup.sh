#!/bin/sh
# Build the framework offline from files on disk: Lean project (all theorem modules + driver),
# Go harness and the goat CLI with hooks enabled.
set -e
cd "$(dirname "$0")"
export GOFLAGS=-mod=mod GOPROXY=off GOSUMDB=off GOTOOLCHAIN=local CGO_ENABLED=0
cat /repo/go.sum harness/go.sum.extra > harness/go.sum
(cd harness && go build -tags verif -o bin/vh ./cmd/vh)
ROOT="$PWD"; (cd /repo && go build -tags verif -o "$ROOT/harness/bin/goat" ./cmd/goat)
./harness/bin/vh extract lean/GoatSpec/Extracted.lean
./harness/bin/vh skeleton lean/GoatSpec/Skeleton.lean
./harness/bin/vh walker lean/GoatSpec/Walker.lean
(cd lean && lake build GoatSpec goatspec)
echo setup-ok
