#!/usr/bin/env python3
"""tools_mutant.py <prop id> <mutant dir> <i> [--checks C01,C02] [--tier quick]

Confirms a seeded change and runs the checks against it:
  1. scratch worktree of /repo HEAD: apply patch_i.diff, go build (with and without -tags verif),
     the existing test suite, the demonstration (must FAIL); reset; demonstration again (must PASS)
  2. apply the patch to /repo itself, run ./check <id> <tier> for the listed checks, undo it
Prints a JSON summary (also appended to /verif/seeded/LOG.jsonl).
"""
import sys, os, json, subprocess, shutil, re, time

ENV = dict(os.environ, GOFLAGS="-mod=mod", GOPROXY="off", GOSUMDB="off", GOTOOLCHAIN="local")


def sh(cmd, cwd=None, timeout=1800):
    p = subprocess.run(cmd, cwd=cwd, shell=isinstance(cmd, str), env=ENV, stdout=subprocess.PIPE, stderr=subprocess.STDOUT, text=True, timeout=timeout)
    return p.returncode, p.stdout


def run_demo(wt, mdir, i):
    d = os.path.join(mdir, f"demo_{i}")
    ENV["REPO"] = wt
    for name in ("run.sh", "demo.sh", "verify.sh"):
        if os.path.exists(os.path.join(d, name)):
            return sh(["bash", os.path.join(d, name), wt], cwd=d, timeout=900)
    tests = [f for f in os.listdir(d) if f.endswith("_test.go")]
    if tests:
        src = open(os.path.join(d, tests[0])).read()
        pm = re.search(r"^package (\w+)", src, re.M)
        byname = {"tracking": "pkg/tracking", "tracking_test": "pkg/tracking", "increment": "pkg/tracking/increment", "goat": "pkg/goat",
                  "goat_test": "pkg/goat", "config": "pkg/config", "config_test": "pkg/config", "utils": "pkg/utils", "utils_test": "pkg/utils",
                  "diff": "pkg/diff", "diff_test": "pkg/diff", "maininfo": "pkg/maininfo", "maininfo_test": "pkg/maininfo", "main": "cmd/goat"}
        pkg = byname.get(pm.group(1) if pm else "", None)
        if pkg is None:
            cands = [c.rstrip("/") for c in re.findall(r"(pkg/[\w/]+|cmd/[\w/]+)", src[:2000]) if os.path.isdir(os.path.join(wt, c.rstrip("/")))]
            pkg = cands[0] if cands else "pkg/goat"
        dst = os.path.join(wt, pkg, "zz_demo_" + tests[0])
        shutil.copy(os.path.join(d, tests[0]), dst)
        for extra in os.listdir(d):
            if extra not in tests and extra != "RESULT.txt" and os.path.isfile(os.path.join(d, extra)) and not extra.endswith(".md"):
                pass
        rc, out = sh(["go", "test", "-vet=off", "-count=1", "./" + pkg + "/"], cwd=wt, timeout=900)
        os.remove(dst)
        return rc, out
    scripts = [f for f in os.listdir(d) if f.endswith(".sh")]
    if scripts:
        return sh(["bash", os.path.join(d, scripts[0]), wt], cwd=d, timeout=900)
    return 99, "no demonstration found"


def main():
    pid, mdir, i = sys.argv[1], sys.argv[2], sys.argv[3]
    checks = [pid]
    tier = "quick"
    if "--checks" in sys.argv:
        checks = sys.argv[sys.argv.index("--checks") + 1].split(",")
    if "--tier" in sys.argv:
        tier = sys.argv[sys.argv.index("--tier") + 1]
    VERIF = os.environ.get("TRIAL_VERIF", "/verif")
    REPO = os.environ.get("TRIAL_REPO", "/repo")
    patch = os.path.join(mdir, f"patch_{i}.diff")
    res = dict(property=pid, mutant=f"{mdir}#{i}", patch=patch)
    wt = f"/tmp/mv_{pid}_{i}"
    sh(f"git -C /repo worktree remove --force {wt}")
    shutil.rmtree(wt, ignore_errors=True)
    rc, out = sh(f"git -C /repo worktree add -q --detach {wt} HEAD")
    try:
        rc, out = sh(["git", "apply", patch], cwd=wt)
        if rc != 0:
            # the patch was written against an earlier HEAD of the repository (a fix: commit landed since):
            # three-way apply, then unstage so that the work tree alone carries the change
            rc, out2 = sh(["git", "apply", "--3way", patch], cwd=wt)
            sh(["git", "reset", "-q"], cwd=wt)
            res["applied_3way"] = rc == 0
            out += out2
        res["applies"] = rc == 0
        if rc != 0:
            res["error"] = out[-500:]
            return res
        rc1, o1 = sh("go build ./... && go build -tags verif ./...", cwd=wt)
        res["builds"] = rc1 == 0
        rc2, o2 = sh("go test -vet=off -count=1 ./...", cwd=wt)
        res["tests_pass"] = rc2 == 0
        rc3, o3 = run_demo(wt, mdir, i)
        res["demo_fails_with_change"] = rc3 != 0
        sh("git checkout -q -- . && git clean -fdq", cwd=wt)
        rc4, o4 = run_demo(wt, mdir, i)
        res["demo_passes_without"] = rc4 == 0
        if rc4 != 0:
            res["demo_out_without"] = o4[-600:]
    finally:
        sh(f"git -C /repo worktree remove --force {wt}")
        shutil.rmtree(wt, ignore_errors=True)
    res["confirmed"] = all(res.get(k) for k in ("applies", "builds", "tests_pass", "demo_fails_with_change", "demo_passes_without"))
    # run the checks against it
    rc, out = sh(["git", "-C", REPO, "apply", patch])
    if rc != 0:
        rc, out2 = sh(["git", "-C", REPO, "apply", "--3way", patch])
        sh(["git", "-C", REPO, "reset", "-q"])
        out += out2
    if rc != 0:
        res["error"] = "does not apply to the repo: " + out[-300:]
        return res
    try:
        res["checks"] = {}
        for c in checks:
            t = time.time()
            ENV["VERIF_REPO"] = REPO
            rc, out = sh(["./check", c, tier], cwd=VERIF, timeout=3600)
            viol = [l for l in out.split("\n") if l.startswith("VIOLATION")]
            detail = [l.strip() for l in out.split("\n") if l.startswith("  ")][:3]
            res["checks"][c] = dict(exit=rc, violations=viol[:3], detail=detail, wall_s=round(time.time() - t, 1))
    finally:
        sh(f"git -C {REPO} checkout -- . && git -C {REPO} clean -fdq pkg cmd")
    res["caught_by"] = [c for c, v in res["checks"].items() if v["exit"] != 0]
    return res


if __name__ == "__main__":
    r = main()
    os.makedirs("/verif/seeded", exist_ok=True)
    with open("/verif/seeded/LOG.jsonl", "a") as f:
        f.write(json.dumps(r) + "\n")
    print(json.dumps(r, indent=1))
